//! known_findings.json: read-only at run time. Open entries are matched on exact signatures.

use serde_json::Value;

pub struct Known {
    /// (property, signature, what fails)
    pub open: Vec<(String, String, String)>,
}

pub fn load(vdir: &str) -> Known {
    let mut open = Vec::new();
    if let Ok(text) = std::fs::read_to_string(format!("{}/known_findings.json", vdir)) {
        if let Ok(doc) = serde_json::from_str::<Value>(&text) {
            for e in doc.get("entries").and_then(|e| e.as_array()).cloned().unwrap_or_default() {
                if e.get("status").and_then(|s| s.as_str()) != Some("open") {
                    continue;
                }
                let prop = e.get("property").and_then(|s| s.as_str()).unwrap_or("").to_string();
                let what = e.get("what_fails").and_then(|s| s.as_str()).unwrap_or("").to_string();
                for sig in e.get("signatures").and_then(|s| s.as_array()).cloned().unwrap_or_default() {
                    if let Some(s) = sig.as_str() {
                        open.push((prop.clone(), s.to_string(), what.clone()));
                    }
                }
            }
        }
    }
    Known { open }
}

impl Known {
    pub fn matches(&self, prop: &str, signature: &str) -> Option<&str> {
        self.open.iter().find(|(p, s, _)| p == prop && s == signature).map(|(_, _, w)| w.as_str())
    }
}
