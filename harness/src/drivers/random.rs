//! Driver R: random stateful generation with shrinking (proptest `TestRunner` driven from the
//! binary; every random choice comes from proptest's generator, seeded from VERIF_SEED).

use super::*;
use proptest::collection::vec;
use proptest::prelude::*;
use proptest::test_runner::{Config, RngAlgorithm, RngSeed, TestCaseError, TestError, TestRunner};
use std::cell::{Cell, RefCell};

pub const WORKERS: usize = 16;

pub struct RandomParams {
    /// histories per (world, config), spread over `WORKERS` logical workers
    pub cases_per_cfg: u64,
    pub max_len: usize,
    pub seed: u64,
}

pub use crate::common::decode_op;

fn mix(seed: u64, world: u8, cfg: &Cfg, worker: u64) -> u64 {
    let mut h = H128::new();
    h.u64(seed);
    h.u8(world);
    h.bytes(&[cfg.flavour, cfg.mode, cfg.x, cfg.y, cfg.k, cfg.sw]);
    h.u64(worker);
    h.finish() as u64
}

/// Runs the random driver for one world over the given configs. Returns the first failure in task
/// order (if any); statistics are merged into `stats`.
pub fn run_random(world: &dyn World, prop: &'static str, cfgs: &[Cfg], params: &RandomParams, stats: &mut Stats, allow_probe: bool) -> Option<Failure> {
    let n_tasks = cfgs.len() * WORKERS;
    let per_worker = (params.cases_per_cfg / WORKERS as u64).max(1);
    let results = run_parallel(n_tasks, threads(), |t| {
        let cfg = cfgs[t / WORKERS];
        let worker = (t % WORKERS) as u64;
        one_task(world, prop, &cfg, worker, per_worker, params, allow_probe)
    });
    let mut first: Option<Failure> = None;
    for (ls, f) in results {
        stats.merge(ls, world, "random");
        if first.is_none() {
            first = f;
        }
    }
    first
}

fn one_task(world: &dyn World, prop: &'static str, cfg: &Cfg, worker: u64, cases: u64, params: &RandomParams, allow_probe: bool) -> (LocalStats, Option<Failure>) {
    let specs = world.specs(cfg);
    let total: u32 = specs.iter().map(|s| s.weight).sum();
    let config = Config {
        cases: cases.min(u32::MAX as u64) as u32,
        failure_persistence: None,
        rng_seed: RngSeed::Fixed(mix(params.seed, world.id(), cfg, worker)),
        rng_algorithm: RngAlgorithm::XorShift,
        max_shrink_iters: 20_000,
        max_shrink_time: 0,
        verbose: 0,
        source_file: None,
        test_name: None,
        ..Config::default()
    };
    let mut runner = TestRunner::new(config);
    let strategy = vec((any::<u16>(), any::<u8>(), any::<u8>()), 0..=params.max_len);
    let ls = RefCell::new(LocalStats::default());
    let failed = Cell::new(false);
    let sample_budget = Cell::new(if worker == 0 { 2u32 } else { 0 });
    let result = runner.run(&strategy, |raw| {
        let ops: Vec<Op> = raw.iter().map(|r| decode_op(&specs, total, *r)).collect();
        let mut run = Run::for_prop(prop);
        run.allow_probe = allow_probe;
        world.run(cfg, &ops, &mut run);
        if !failed.get() {
            // statistics stop at the first failure: the closure re-runs while shrinking
            let nt = ls.borrow_mut().account(world, prop, cfg, &ops, &run);
            if nt && sample_budget.get() > 0 && run.violation.is_none() {
                sample_budget.set(sample_budget.get() - 1);
                ls.borrow_mut().samples.push(sample_json(world, cfg, &ops));
            }
        }
        match &run.violation {
            Some(v) if v.is(prop) => {
                failed.set(true);
                Err(TestCaseError::fail(format!("{}: {}", v.kind, v.detail)))
            }
            _ => Ok(()),
        }
    });
    let failure = match result {
        Ok(()) => None,
        Err(TestError::Fail(_, raw)) => {
            let ops: Vec<Op> = raw.iter().map(|r| decode_op(&specs, total, *r)).collect();
            let ops = minimise(world, prop, cfg, ops, allow_probe);
            let mut run = Run::for_prop(prop);
            run.allow_probe = allow_probe;
            world.run(cfg, &ops, &mut run);
            run.violation.clone().filter(|v| v.is(prop)).map(|violation| Failure { world: world.name(), cfg: *cfg, ops, violation, driver: "random" })
        }
        Err(TestError::Abort(_)) => None,
    };
    (ls.into_inner(), failure)
}

/// Greedy post-shrink: remove single ops while the same property still fails (proptest's vec
/// shrinking is good but bounded by `max_shrink_iters`).
pub fn minimise(world: &dyn World, prop: &'static str, cfg: &Cfg, mut ops: Vec<Op>, allow_probe: bool) -> Vec<Op> {
    let fails = |ops: &[Op]| {
        let mut run = Run::for_prop(prop);
        run.allow_probe = allow_probe;
        world.run(cfg, ops, &mut run);
        matches!(&run.violation, Some(v) if v.is(prop))
    };
    if !fails(&ops) {
        return ops;
    }
    // truncate after the violating step
    {
        let mut run = Run::for_prop(prop);
        run.allow_probe = allow_probe;
        world.run(cfg, &ops, &mut run);
        if let Some(v) = &run.violation {
            if v.step + 1 < ops.len() {
                let t = ops[..=v.step].to_vec();
                if fails(&t) {
                    ops = t;
                }
            }
        }
    }
    let mut changed = true;
    while changed {
        changed = false;
        let mut i = 0;
        while i < ops.len() {
            let mut t = ops.clone();
            t.remove(i);
            if fails(&t) {
                ops = t;
                changed = true;
            } else {
                i += 1;
            }
        }
        // lower arguments
        for i in 0..ops.len() {
            for field in 0..2 {
                loop {
                    let mut t = ops.clone();
                    let r = if field == 0 { &mut t[i].a } else { &mut t[i].b };
                    if *r == 0 {
                        break;
                    }
                    *r -= 1;
                    if fails(&t) {
                        ops = t;
                        changed = true;
                    } else {
                        break;
                    }
                }
            }
        }
    }
    ops
}
