//! Driver U orchestration: a fixed-seed sample of driver R's histories (generated natively by
//! proptest) plus the committed regression files are executed under Miri, one process per world.
//! Only "Undefined Behavior" reports count as violations; a Miri run that ends for any other
//! reason (unsupported operation, tool missing, time limit) is noted as inconclusive.

use super::*;
use std::io::Read;
use std::path::Path;
use std::process::{Command, Stdio};
use std::time::{Duration, Instant};

pub fn campaign(vdir: &str, prop: &'static str, worlds: &[&'static dyn World], histories: usize, seed: u64, stats: &mut Stats) -> Option<Failure> {
    let hdir = Path::new(vdir).join("harness");
    let out_root = Path::new(vdir).join("out").join("miri");
    let _ = std::fs::create_dir_all(&out_root);
    let limit = Duration::from_secs(std::env::var("VERIF_MIRI_LIMIT_S").ok().and_then(|s| s.parse().ok()).unwrap_or(2400));
    let mut children = Vec::new();
    for (wi, w) in worlds.iter().enumerate() {
        let file = out_root.join(format!("{}.jsonl", w.name()));
        let mut lines: Vec<String> = Vec::new();
        // committed regression histories of this world first
        if let Ok(rd) = std::fs::read_dir(Path::new(vdir).join("regress")) {
            let mut files: Vec<_> = rd.filter_map(|e| e.ok()).map(|e| e.path()).collect();
            files.sort();
            for f in files {
                let Ok(text) = std::fs::read_to_string(&f) else { continue };
                let Ok(doc) = serde_json::from_str::<Value>(&text) else { continue };
                if doc.get("world").and_then(|x| x.as_str()) == Some(w.name()) {
                    lines.push(serde_json::to_string(&doc).unwrap());
                }
            }
        }
        lines.extend(crate::plan::gen_sample(*w, histories, 30, seed.wrapping_add(1000)));
        if std::fs::write(&file, lines.join("\n")).is_err() {
            continue;
        }
        let log = out_root.join(format!("{}.out", w.name()));
        let Ok(logf) = std::fs::File::create(&log) else { continue };
        let Ok(logf2) = logf.try_clone() else { continue };
        let mut cmd = Command::new("cargo");
        cmd.args(["+nightly", "miri", "run", "--no-default-features", "--bin", "fi_miri", "--"])
            .arg(&file)
            .arg(prop)
            .current_dir(&hdir)
            .env("MIRIFLAGS", "-Zmiri-disable-isolation -Zmiri-ignore-leaks")
            .env("RUSTFLAGS", "--cfg futures_intrusive_verif")
            .env("CARGO_NET_OFFLINE", "true")
            .stdout(Stdio::from(logf))
            .stderr(Stdio::from(logf2));
        // the first process compiles, the others wait on cargo's build directory lock
        match cmd.spawn() {
            Ok(c) => children.push((*w, c, lines, log)),
            Err(e) => stats.notes.push(format!("miri for {} could not be started: {}", w.name(), e)),
        }
        if wi == 0 {
            std::thread::sleep(Duration::from_millis(500));
        }
    }
    let t0 = Instant::now();
    let mut failure: Option<Failure> = None;
    let mut total = 0u64;
    for (w, mut child, lines, log) in children {
        let status = loop {
            match child.try_wait() {
                Ok(Some(s)) => break Some(s),
                Ok(None) => {
                    if t0.elapsed() > limit {
                        let _ = child.kill();
                        let _ = child.wait();
                        break None;
                    }
                    std::thread::sleep(Duration::from_millis(300));
                }
                Err(_) => break None,
            }
        };
        let mut text = String::new();
        if let Ok(mut f) = std::fs::File::open(&log) {
            let _ = f.read_to_string(&mut text);
        }
        let begun = text.lines().filter(|l| l.starts_with("BEGIN ")).count() as u64;
        let done = text.lines().any(|l| l.starts_with("DONE "));
        total += if done { begun } else { begun.saturating_sub(1) };
        let ub = text.lines().find(|l| l.contains("Undefined Behavior"));
        match (status, ub) {
            (_, Some(ubline)) => {
                // the culprit is the last history that began
                let idx = text.lines().filter_map(|l| l.strip_prefix("BEGIN ")).filter_map(|n| n.trim().parse::<usize>().ok()).last();
                stats.notes.push(format!("miri {}: {}", w.name(), ubline.trim()));
                if failure.is_none() {
                    if let Some(doc) = idx.and_then(|i| lines.get(i)).and_then(|l| serde_json::from_str::<Value>(l).ok()) {
                        if let (Some(cfg), Some(ops_v)) = (doc.get("config").and_then(cfg_from_json), doc.get("ops")) {
                            let specs = w.specs(&cfg);
                            if let Some(ops) = ops_from_json(&specs, ops_v) {
                                let n = ops.len();
                                let p: &'static str = if matches!(prop, "C19" | "C20") { prop } else { "C01" };
                                failure = Some(Failure {
                                    world: w.name(),
                                    cfg,
                                    ops,
                                    violation: Violation { prop: p, also: None, kind: "miri-undefined-behavior", detail: format!("Miri reports while executing this history: {}", ubline.trim()), step: n },
                                    driver: "miri",
                                });
                            }
                        }
                    }
                }
            }
            (Some(s), None) if s.success() && done => {
                let mv = text.lines().filter(|l| l.starts_with("MONITOR-VIOLATION")).count();
                stats.notes.push(format!("miri {}: {} histories clean ({} monitor violations)", w.name(), begun, mv));
            }
            (Some(s), None) => {
                let hint: String = text.lines().filter(|l| l.starts_with("error")).take(2).collect::<Vec<_>>().join(" | ");
                stats.notes.push(format!("miri {}: inconclusive, exit {:?} after {} histories: {}", w.name(), s.code(), begun, hint));
            }
            (None, None) => stats.notes.push(format!("miri {}: inconclusive, stopped at the time limit after {} histories", w.name(), begun)),
        }
    }
    *stats.per_driver.entry("miri-histories".into()).or_insert(0) += total;
    failure
}
