//! Driver F orchestration: builds the cargo-fuzz targets (libFuzzer + AddressSanitizer), seeds a
//! corpus from `regress/` and from proptest-generated histories, runs a bounded campaign per
//! world in parallel, and turns a crash into a replayable JSON history.
//!
//! libFuzzer pins a campaign only approximately (`-seed`, `-runs`); the saved input is the
//! reproducible unit. A build or tool failure is reported in the evidence and never counts as a
//! violation.

use super::*;
use crate::fuzz;
use std::path::{Path, PathBuf};
use std::process::Command;

pub struct FuzzOutcome {
    pub ran: bool,
    pub note: String,
    pub failure: Option<Failure>,
    /// ASan / libFuzzer report excerpt when the crash does not reproduce as a monitor violation
    pub sanitizer_report: Option<String>,
}

fn fuzz_dir(vdir: &str) -> PathBuf {
    Path::new(vdir).join("harness").join("fuzz")
}

pub fn build(vdir: &str) -> Result<(), String> {
    let out = Command::new("cargo")
        .args(["+nightly", "fuzz", "build", "-O", "--debug-assertions"])
        .current_dir(fuzz_dir(vdir))
        .env("RUSTFLAGS", "--cfg futures_intrusive_verif")
        .env("CARGO_NET_OFFLINE", "true")
        .output()
        .map_err(|e| format!("cannot start cargo fuzz: {}", e))?;
    if !out.status.success() {
        let err = String::from_utf8_lossy(&out.stderr);
        let tail: Vec<&str> = err.lines().rev().take(12).collect();
        return Err(format!("cargo fuzz build failed: {}", tail.into_iter().rev().collect::<Vec<_>>().join(" | ")));
    }
    Ok(())
}

fn seed_corpus(vdir: &str, world: &dyn World, dir: &Path, seed: u64) -> usize {
    let _ = std::fs::remove_dir_all(dir);
    let _ = std::fs::create_dir_all(dir);
    let mut n = 0;
    let mut put = |bytes: Vec<u8>| {
        let _ = std::fs::write(dir.join(format!("seed-{:04}", n)), bytes);
        n += 1;
    };
    // committed regression histories of this world
    if let Ok(rd) = std::fs::read_dir(Path::new(vdir).join("regress")) {
        let mut files: Vec<PathBuf> = rd.filter_map(|e| e.ok()).map(|e| e.path()).collect();
        files.sort();
        for f in files {
            let Ok(text) = std::fs::read_to_string(&f) else { continue };
            let Ok(doc) = serde_json::from_str::<Value>(&text) else { continue };
            if doc.get("world").and_then(|w| w.as_str()) != Some(world.name()) {
                continue;
            }
            let Some(cfg) = doc.get("config").and_then(cfg_from_json) else { continue };
            let specs = world.specs(&cfg);
            let Some(ops) = doc.get("ops").and_then(|o| ops_from_json(&specs, o)) else { continue };
            if let Some(b) = fuzz::encode(world, &cfg, &ops) {
                put(b);
            }
        }
    }
    // generated histories (driver R's generator, fixed seed)
    for line in crate::plan::gen_sample(world, 64, 60, seed) {
        let Ok(doc) = serde_json::from_str::<Value>(&line) else { continue };
        let Some(cfg) = doc.get("config").and_then(cfg_from_json) else { continue };
        let specs = world.specs(&cfg);
        let Some(ops) = doc.get("ops").and_then(|o| ops_from_json(&specs, o)) else { continue };
        if let Some(b) = fuzz::encode(world, &cfg, &ops) {
            put(b);
        }
    }
    n
}

/// Runs the campaign for the given worlds. `runs` per target.
pub fn campaign(vdir: &str, prop: &'static str, worlds: &[&'static dyn World], runs: u64, seed: u64, stats: &mut Stats) -> FuzzOutcome {
    if let Err(e) = build(vdir) {
        return FuzzOutcome { ran: false, note: format!("fuzz driver skipped: {}", e), failure: None, sanitizer_report: None };
    }
    let fdir = fuzz_dir(vdir);
    let bin_dir = fdir.join("target").join("x86_64-unknown-linux-gnu").join("release");
    let out_root = Path::new(vdir).join("out").join("fuzz");
    let mut children = Vec::new();
    for w in worlds {
        let bin = bin_dir.join(w.name());
        if !bin.exists() {
            continue;
        }
        let corpus = out_root.join("corpus").join(w.name());
        let artifacts = out_root.join("artifacts").join(w.name());
        let n_seeds = seed_corpus(vdir, *w, &corpus, seed);
        let _ = std::fs::remove_dir_all(&artifacts);
        let _ = std::fs::create_dir_all(&artifacts);
        let log = out_root.join(format!("{}.log", w.name()));
        let logf = std::fs::File::create(&log).ok();
        let mut cmd = Command::new(&bin);
        cmd.arg(format!("-runs={}", runs))
            .arg(format!("-seed={}", if seed == 0 { 1 } else { seed % (u32::MAX as u64) }))
            .arg("-len_control=0")
            .arg("-max_len=600")
            .arg("-print_final_stats=1")
            // peak RSS is inherited from the (large) parent process across fork+exec, so
            // libFuzzer's rss limit would fire at once; bound single allocations instead
            .arg("-rss_limit_mb=0")
            .arg("-malloc_limit_mb=2048")
            .arg(format!("-artifact_prefix={}/", artifacts.display()))
            .arg(&corpus)
            .env("ASAN_OPTIONS", "detect_leaks=0:abort_on_error=1:symbolize=1")
            .stdout(std::process::Stdio::null());
        if let Some(f) = logf {
            cmd.stderr(f);
        } else {
            cmd.stderr(std::process::Stdio::null());
        }
        match cmd.spawn() {
            Ok(c) => children.push((*w, c, corpus, artifacts, log, n_seeds)),
            Err(e) => stats.notes.push(format!("fuzz target {} could not be started: {}", w.name(), e)),
        }
    }
    let mut outcome = FuzzOutcome { ran: true, note: String::new(), failure: None, sanitizer_report: None };
    let mut total_runs = 0u64;
    for (w, mut child, corpus, artifacts, log, n_seeds) in children {
        let status = child.wait();
        let logtext = std::fs::read_to_string(&log).unwrap_or_default();
        let execs = logtext
            .lines()
            .find_map(|l| l.strip_prefix("stat::number_of_executed_units:").map(|v| v.trim().parse::<u64>().unwrap_or(0)))
            .unwrap_or(0);
        total_runs += execs;
        // classify what the campaign kept: replay the final corpus natively
        let mut ls = LocalStats::default();
        let mut corpus_files = 0u64;
        if let Ok(rd) = std::fs::read_dir(&corpus) {
            for e in rd.filter_map(|e| e.ok()) {
                let Ok(data) = std::fs::read(e.path()) else { continue };
                let Some((cfg, ops)) = fuzz::decode(w, &data) else { continue };
                let mut run = Run::for_prop(prop);
                run.allow_probe = false;
                w.run(&cfg, &ops, &mut run);
                ls.account(w, prop, &cfg, &ops, &run);
                corpus_files += 1;
            }
        }
        stats.merge(ls, w, "fuzz-corpus-replay");
        *stats.per_driver.entry("fuzz-executions".into()).or_insert(0) += execs;
        stats.notes.push(format!("fuzz {}: {} seeds, {} executions, final corpus {} inputs, exit {:?}", w.name(), n_seeds, execs, corpus_files, status.as_ref().ok().and_then(|s| s.code())));
        let crashed = !matches!(&status, Ok(s) if s.success());
        if crashed && outcome.failure.is_none() && outcome.sanitizer_report.is_none() {
            // find the artifact
            let art = std::fs::read_dir(&artifacts).ok().and_then(|rd| rd.filter_map(|e| e.ok()).map(|e| e.path()).find(|p| p.file_name().is_some_and(|n| n.to_string_lossy().starts_with("crash-"))));
            let report: String = logtext.lines().filter(|l| l.contains("MONITOR-VIOLATION") || l.contains("ERROR: AddressSanitizer") || l.contains("SUMMARY") || l.contains("panicked")).take(6).collect::<Vec<_>>().join(" | ");
            if let Some(art) = art {
                if let Ok(data) = std::fs::read(&art) {
                    if let Some((cfg, ops)) = fuzz::decode(w, &data) {
                        // reproduce natively (quarantine on): a monitor names the property
                        let mut run = Run::for_prop(prop);
                        run.allow_probe = false;
                        w.run(&cfg, &ops, &mut run);
                        match run.violation {
                            Some(v) if v.is(prop) => {
                                let ops = crate::drivers::random::minimise(w, prop, &cfg, ops, false);
                                let mut run2 = Run::for_prop(prop);
                                run2.allow_probe = false;
                                w.run(&cfg, &ops, &mut run2);
                                let violation = run2.violation.unwrap_or(v);
                                outcome.failure = Some(Failure { world: w.name(), cfg, ops, violation, driver: "fuzz" });
                            }
                            Some(v) => {
                                stats.aborted_by_other_property += 1;
                                if stats.aborted_example.is_none() {
                                    stats.aborted_example = Some(format!("fuzz {}: {} {}: {}", w.name(), v.prop, v.kind, v.detail));
                                }
                            }
                            None => {
                                // only the sanitizer / a crash sees it: memory error or abort inside the library
                                if prop == "C01" || report.contains("AddressSanitizer") {
                                    let violation = Violation {
                                        prop: "C01",
                                        also: None,
                                        kind: "sanitizer-or-crash",
                                        detail: format!("the fuzz target crashed on this history without a monitor violation: {}", report),
                                        step: ops.len(),
                                    };
                                    if prop == "C01" {
                                        outcome.failure = Some(Failure { world: w.name(), cfg, ops, violation, driver: "fuzz" });
                                    } else {
                                        stats.aborted_by_other_property += 1;
                                    }
                                    outcome.sanitizer_report = Some(report.clone());
                                }
                            }
                        }
                    }
                }
            } else {
                stats.notes.push(format!("fuzz {} ended abnormally without an artifact: {}", w.name(), report));
            }
        }
    }
    outcome.note = format!("fuzz campaign: {} executions over {} targets (libFuzzer + ASan, -runs={} each)", total_runs, worlds.len(), runs);
    outcome
}
