//! Drivers: random stateful generation (R), bounded-exhaustive enumeration (E) and helpers shared
//! by them (statistics, failure records, replay files).

pub mod enumerate;
#[cfg(feature = "pbt")]
pub mod fuzzrun;
#[cfg(feature = "pbt")]
pub mod mirirun;
#[cfg(feature = "pbt")]
pub mod random;

use crate::common::*;
use serde_json::{json, Value};
use std::collections::{BTreeMap, HashSet};

/// A violation found by a driver, with the (shrunk) history that produces it.
#[derive(Clone, Debug)]
pub struct Failure {
    pub world: &'static str,
    pub cfg: Cfg,
    pub ops: Vec<Op>,
    pub violation: Violation,
    pub driver: &'static str,
}

pub const DISTINCT_CAP: usize = 60_000_000;

/// Statistics of a check run for one property (merged over worlds, configs, drivers).
pub struct Stats {
    pub prop: String,
    pub evaluations: u64,
    pub ops: u64,
    pub noops: u64,
    pub lib_calls: u64,
    pub nontrivial_seen: u64,
    pub nontrivial: HashSet<u128>,
    pub class_hist: BTreeMap<String, u64>,
    pub aborted_by_other_property: u64,
    pub aborted_example: Option<String>,
    pub samples: Vec<Value>,
    pub per_driver: BTreeMap<String, u64>,
    pub enum_reports: Vec<Value>,
    pub exhaustive_all: Option<bool>,
    pub excluded_known: u64,
    pub notes: Vec<String>,
}

impl Stats {
    pub fn new(prop: &str) -> Stats {
        Stats {
            prop: prop.to_string(),
            evaluations: 0,
            ops: 0,
            noops: 0,
            lib_calls: 0,
            nontrivial_seen: 0,
            nontrivial: HashSet::new(),
            class_hist: BTreeMap::new(),
            aborted_by_other_property: 0,
            aborted_example: None,
            samples: Vec::new(),
            per_driver: BTreeMap::new(),
            enum_reports: Vec::new(),
            exhaustive_all: None,
            excluded_known: 0,
            notes: Vec::new(),
        }
    }
    pub fn merge(&mut self, o: LocalStats, world: &dyn World, driver: &str) {
        self.evaluations += o.evaluations;
        self.ops += o.ops;
        self.noops += o.noops;
        self.lib_calls += o.lib_calls;
        self.nontrivial_seen += o.nontrivial_seen;
        for h in o.nontrivial {
            // exact de-duplication up to a cap; beyond it the count stays a conservative lower bound
            if self.nontrivial.len() < DISTINCT_CAP {
                self.nontrivial.insert(h);
            } else if !self.notes.iter().any(|n| n.starts_with("distinct_nontrivial is capped")) {
                self.notes.push(format!("distinct_nontrivial is capped at {} (exact de-duplication stops there; the real number is larger, see nontrivial_evaluations)", DISTINCT_CAP));
            }
        }
        let names = world.class_names();
        for (i, c) in o.class_hist.iter().enumerate() {
            if *c > 0 {
                let n = names.get(i).copied().unwrap_or("?");
                *self.class_hist.entry(format!("{}:{}", world.name(), n)).or_insert(0) += *c;
            }
        }
        self.aborted_by_other_property += o.aborted_other;
        if self.aborted_example.is_none() {
            self.aborted_example = o.aborted_example;
        }
        *self.per_driver.entry(driver.to_string()).or_insert(0) += o.evaluations;
        self.excluded_known += o.excluded_known;
        for s in o.samples {
            if self.samples.len() < 6 {
                self.samples.push(s);
            }
        }
    }
}

/// Per task statistics (no locking while the task runs).
pub struct LocalStats {
    pub evaluations: u64,
    pub ops: u64,
    pub noops: u64,
    pub lib_calls: u64,
    pub nontrivial_seen: u64,
    pub nontrivial: Vec<u128>,
    pub class_hist: [u64; 64],
    pub aborted_other: u64,
    pub aborted_example: Option<String>,
    pub samples: Vec<Value>,
    pub excluded_known: u64,
}

impl Default for LocalStats {
    fn default() -> Self {
        LocalStats {
            evaluations: 0,
            ops: 0,
            noops: 0,
            lib_calls: 0,
            nontrivial_seen: 0,
            nontrivial: Vec::new(),
            class_hist: [0; 64],
            aborted_other: 0,
            aborted_example: None,
            samples: Vec::new(),
            excluded_known: 0,
        }
    }
}

impl LocalStats {
    /// Accounts one executed history. Returns true if it was non-trivial for `prop`.
    pub fn account(&mut self, world: &dyn World, prop: &str, cfg: &Cfg, ops: &[Op], run: &Run) -> bool {
        self.evaluations += 1;
        self.ops += run.steps as u64;
        self.noops += run.noops as u64;
        self.lib_calls += run.lib_calls as u64;
        self.excluded_known += run.excluded_known as u64;
        let mut c = run.classes;
        while c != 0 {
            let i = c.trailing_zeros() as usize;
            self.class_hist[i] += 1;
            c &= c - 1;
        }
        if let Some(v) = run.violation.as_ref().or(run.other.as_ref()) {
            if !v.is(prop) {
                self.aborted_other += 1;
                if self.aborted_example.is_none() {
                    self.aborted_example = Some(format!("{} {}: {}", v.prop, v.kind, v.detail));
                }
            }
        }
        let nt = world.nontrivial(prop, run.classes);
        if nt {
            self.nontrivial_seen += 1;
            self.nontrivial.push(hash_history(world.id(), cfg, ops));
        }
        nt
    }
}

pub fn cfg_json(c: &Cfg) -> Value {
    json!({"flavour": c.flavour, "mode": c.mode, "x": c.x, "y": c.y, "k": c.k, "sw": c.sw})
}

pub fn cfg_from_json(v: &Value) -> Option<Cfg> {
    Some(Cfg {
        flavour: v.get("flavour")?.as_u64()? as u8,
        mode: v.get("mode")?.as_u64()? as u8,
        x: v.get("x")?.as_u64()? as u8,
        y: v.get("y")?.as_u64()? as u8,
        k: v.get("k")?.as_u64()? as u8,
        sw: v.get("sw").and_then(|s| s.as_u64()).unwrap_or(0) as u8,
    })
}

pub fn ops_json(specs: &[OpSpec], ops: &[Op]) -> Value {
    Value::Array(ops.iter().map(|o| json!([specs[o.code as usize].name, o.a, o.b])).collect())
}

pub fn ops_from_json(specs: &[OpSpec], v: &Value) -> Option<Vec<Op>> {
    let mut out = Vec::new();
    for e in v.as_array()? {
        let a = e.as_array()?;
        let name = a.first()?.as_str()?;
        let code = specs.iter().position(|s| s.name == name)? as u8;
        out.push(Op { code, a: a.get(1).and_then(|x| x.as_u64()).unwrap_or(0) as u8, b: a.get(2).and_then(|x| x.as_u64()).unwrap_or(0) as u8 });
    }
    Some(out)
}

/// A history as a replay document.
pub fn history_json(prop: &str, world: &dyn World, cfg: &Cfg, ops: &[Op], violation: Option<&Violation>) -> Value {
    let specs = world.specs(cfg);
    let mut v = json!({
        "property": prop,
        "world": world.name(),
        "config": cfg_json(cfg),
        "config_desc": world.describe(cfg),
        "ops": ops_json(&specs, ops),
    });
    if let Some(vi) = violation {
        v["expect"] = json!({"property": vi.prop, "kind": vi.kind, "detail": vi.detail, "after_op": vi.step});
    }
    v
}

/// A pretty sample for the evidence file: the ops with the observed trace.
pub fn sample_json(world: &dyn World, cfg: &Cfg, ops: &[Op]) -> Value {
    let mut run = Run::new();
    run.want_trace = true;
    run.allow_probe = true;
    world.run(cfg, ops, &mut run);
    let specs = world.specs(cfg);
    json!({
        "world": world.name(),
        "config": world.describe(cfg),
        "ops": ops.iter().map(|o| op_to_string(&specs, o)).collect::<Vec<_>>().join(" "),
        "observed": run.trace,
        "classes": class_list(world, run.classes),
    })
}

pub fn class_list(world: &dyn World, classes: u64) -> Vec<&'static str> {
    let names = world.class_names();
    (0..64).filter(|i| classes & (1u64 << i) != 0).map(|i| names.get(i).copied().unwrap_or("?")).collect()
}

/// Runs `tasks` closures on a pool of threads and returns the results in task order.
pub fn run_parallel<T: Send>(n_tasks: usize, threads: usize, f: impl Fn(usize) -> T + Sync) -> Vec<T> {
    use std::sync::atomic::{AtomicUsize, Ordering};
    use std::sync::Mutex;
    let next = AtomicUsize::new(0);
    let results: Mutex<Vec<Option<T>>> = Mutex::new((0..n_tasks).map(|_| None).collect());
    std::thread::scope(|sc| {
        for _ in 0..threads.max(1).min(n_tasks.max(1)) {
            sc.spawn(|| loop {
                let i = next.fetch_add(1, Ordering::Relaxed);
                if i >= n_tasks {
                    break;
                }
                let r = f(i);
                results.lock().unwrap()[i] = Some(r);
            });
        }
    });
    results.into_inner().unwrap().into_iter().map(|r| r.expect("task result")).collect()
}

pub fn threads() -> usize {
    std::env::var("VERIF_THREADS").ok().and_then(|s| s.parse().ok()).unwrap_or_else(|| std::thread::available_parallelism().map(|n| n.get()).unwrap_or(4))
}
