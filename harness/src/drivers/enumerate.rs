//! Driver E: bounded-exhaustive enumeration (SmallCheck style). Explores all op sequences
//! breadth-first and prunes a sequence when the joint fingerprint (implementation snapshot +
//! monitor shadow) after it has been seen before. When the frontier empties before the depth
//! bound, the configuration has been explored to a fixpoint.

use super::*;
use std::collections::HashSet;

pub struct EnumParams {
    pub max_depth: usize,
    pub max_states: usize,
}

pub struct EnumReport {
    pub states: usize,
    pub transitions: u64,
    pub depth: usize,
    pub fixpoint: bool,
}

fn alphabet(specs: &[OpSpec]) -> Vec<Op> {
    let mut v = Vec::new();
    for (c, s) in specs.iter().enumerate() {
        if s.weight == 0 {
            continue;
        }
        for a in 0..s.an.max(1) {
            for b in 0..s.bn.max(1) {
                v.push(Op { code: c as u8, a, b });
            }
        }
    }
    v
}

struct Expansion {
    parent: u32,
    op: Op,
    fp: u128,
    stop: bool,
    failure: Option<Violation>,
}

pub fn run_enum(world: &dyn World, prop: &'static str, cfg: &Cfg, params: &EnumParams, stats: &mut Stats) -> (EnumReport, Option<Failure>) {
    let specs = world.specs(cfg);
    let alpha = alphabet(&specs);
    let mut nodes: Vec<(u32, Op)> = vec![(u32::MAX, Op { code: 0, a: 0, b: 0 })];
    let mut seen: HashSet<u128> = HashSet::new();
    {
        let mut run = Run::new();
        run.want_fp = true;
        world.run(cfg, &[], &mut run);
        seen.insert(run.fp);
    }
    let mut frontier: Vec<u32> = vec![0];
    let mut depth = 0usize;
    let mut transitions = 0u64;
    let mut capped = false;
    let path = |nodes: &Vec<(u32, Op)>, mut n: u32| {
        let mut ops = Vec::new();
        while n != 0 {
            let (p, op) = nodes[n as usize];
            ops.push(op);
            n = p;
        }
        ops.reverse();
        ops
    };
    while !frontier.is_empty() && depth < params.max_depth && !capped {
        depth += 1;
        let nthreads = threads();
        let chunk = frontier.len().div_ceil(nthreads).max(1);
        let chunks: Vec<&[u32]> = frontier.chunks(chunk).collect();
        let nodes_ref = &nodes;
        let results = run_parallel(chunks.len(), nthreads, |ci| {
            let mut ls = LocalStats::default();
            let mut out: Vec<Expansion> = Vec::new();
            for &n in chunks[ci] {
                let mut ops = path(nodes_ref, n);
                for op in &alpha {
                    ops.push(*op);
                    let mut run = Run::for_prop(prop);
                    run.want_fp = true;
                    world.run(cfg, &ops, &mut run);
                    ls.account(world, prop, cfg, &ops, &run);
                    let (stop, failure) = match &run.violation {
                        Some(v) if v.is(prop) => (true, Some(v.clone())),
                        Some(_) => (true, None),
                        None => (false, None),
                    };
                    out.push(Expansion { parent: n, op: *op, fp: run.fp, stop, failure });
                    ops.pop();
                }
            }
            (ls, out)
        });
        let mut next: Vec<u32> = Vec::new();
        for (ls, out) in results {
            stats.merge(ls, world, "enumerate");
            for e in out {
                transitions += 1;
                if let Some(v) = e.failure {
                    let mut ops = path(&nodes, e.parent);
                    ops.push(e.op);
                    let rep = EnumReport { states: seen.len(), transitions, depth, fixpoint: false };
                    return (rep, Some(Failure { world: world.name(), cfg: *cfg, ops, violation: v, driver: "enumerate" }));
                }
                if e.stop {
                    continue;
                }
                if seen.insert(e.fp) {
                    if nodes.len() >= params.max_states {
                        capped = true;
                        continue;
                    }
                    nodes.push((e.parent, e.op));
                    next.push((nodes.len() - 1) as u32);
                }
            }
        }
        frontier = next;
    }
    let fixpoint = frontier.is_empty() && !capped;
    (EnumReport { states: seen.len(), transitions, depth, fixpoint }, None)
}
