//! MPMC channel world: C08, C09, C10, the mpmc part of C11, stream part of C17, and C01, C18.

use crate::common::lock::{CheckedLock, Noop, PlLock};
use crate::common::payload::{self, Tagged};
use crate::common::*;
use futures_core::future::FusedFuture;
use futures_core::stream::{FusedStream, Stream};
use futures_intrusive::buffer::{ArrayBuf, FixedHeapBuf, GrowingHeapBuf, RingBuf};
use futures_intrusive::channel::shared as sh;
use futures_intrusive::channel::{ChannelReceiveFuture, ChannelSendFuture, ChannelStream, CloseStatus, GenericChannel, TryReceiveError, TrySendError};
use lock_api::RawMutex;
use std::cell::RefCell;
use std::future::Future;
use std::pin::Pin;
use std::task::{Context, Poll};

pub struct MpmcWorld;

pub const OP_MK_SEND: u8 = 0;
pub const OP_POLL_SEND: u8 = 1;
pub const OP_DROP_SEND: u8 = 2;
pub const OP_CANCEL_SEND: u8 = 3;
pub const OP_MK_RECV: u8 = 4;
pub const OP_POLL_RECV: u8 = 5;
pub const OP_DROP_RECV: u8 = 6;
pub const OP_TRY_SEND: u8 = 7;
pub const OP_TRY_RECV: u8 = 8;
pub const OP_CLOSE: u8 = 9;
pub const OP_MK_STREAM: u8 = 10;
pub const OP_POLL_STREAM: u8 = 11;
pub const OP_DROP_STREAM: u8 = 12;
pub const OP_CLONE_TX: u8 = 13;
pub const OP_DROP_TX: u8 = 14;
pub const OP_CLONE_RX: u8 = 15;
pub const OP_DROP_RX: u8 = 16;
pub const OP_DROP_HELD: u8 = 17;
pub const OP_PROBE: u8 = 18;

pub const CL_DELIVERED: u32 = 0;
pub const CL_WITHDRAWN: u32 = 1;
pub const CL_TWO_IN_FLIGHT_PARKED_RECV: u32 = 2;
pub const CL_CANCEL_MIDDLE: u32 = 3;
pub const CL_AVAILABLE_WHILE_RECV_PENDING: u32 = 4;
pub const CL_DROP_WOKEN_RECV: u32 = 5;
pub const CL_STEAL_FROM_NOTIFIED: u32 = 6;
pub const CL_CLOSE_WITH_PENDING: u32 = 7;
pub const CL_HANDLE_OPS_TWO: u32 = 8;
pub const CL_DROP_PENDING_WITH_OTHERS: u32 = 9;
pub const CL_DROP_WOKEN: u32 = 10;
pub const CL_REPOLL_PENDING: u32 = 11;
pub const CL_TERMINATED_SEEN: u32 = 12;
pub const CL_SHARED_REPOLL: u32 = 13;
pub const CL_STREAM_TWO_ITEMS_END: u32 = 14;
pub const CL_THREE_PENDING_WAKE_ALL: u32 = 15;
pub const CL_PROBE: u32 = 16;
pub const CL_LAST_RX_DROP_WITH_BUFFERED: u32 = 17;
pub const CL_ORPHAN_IN_BUFFER: u32 = 18;
pub const CL_REFILL: u32 = 19;
pub const CL_SENDER_WOKEN_BY_RECEIVE: u32 = 20;
pub const CL_FUTURE_OUTLIVES_HANDLE: u32 = 21;
pub const CL_RETURNED_BY_CLOSE: u32 = 22;
pub const CL_RECEIVE_AFTER_CLOSE: u32 = 23;
pub const CL_WAKER_SWAP_RECV: u32 = 24;

const CLASS_NAMES: &[&str] = &[
    "value-delivered",
    "value-withdrawn(cancel|drop|close)",
    "two-in-flight-with-parked-sender-and-receive",
    "parked-sender-cancelled-from-the-middle",
    "value-became-available-while-receiver-pending",
    "woken-receiver-dropped",
    "try_receive-stole-from-notified-receiver",
    "close-with-pending",
    "two-handle-ops-before-last-drop",
    "drop-pending-with-others",
    "drop-woken",
    "repoll-pending",
    "terminated-seen",
    "shared-future-polled-pending-twice",
    "stream-yielded-two-items-then-ended",
    "three-pending-woken-at-once",
    "probe",
    "last-receiver-dropped-with-buffered-values",
    "orphan-value-in-buffer(sender gone)",
    "refill-from-parked-sender",
    "sender-woken-by-receive",
    "future-outlives-its-handle",
    "value-returned-by-close",
    "receive-after-close",
    "receiver-waker-swapped-before-notify",
];

/// buffer kinds (cfg.y)
pub const BUF_ARRAY: u8 = 0;
pub const BUF_FIXED: u8 = 1;
pub const BUF_GROWING: u8 = 2;

impl World for MpmcWorld {
    fn id(&self) -> u8 {
        7
    }
    fn shared_wakers(&self) -> bool {
        true
    }
    fn name(&self) -> &'static str {
        "mpmc"
    }
    fn props(&self) -> &'static [&'static str] {
        &["C01", "C08", "C09", "C10", "C11", "C17", "C18"]
    }
    fn configs(&self, tier: Tier) -> Vec<Cfg> {
        let k = if tier == Tier::Quick { 4 } else { 5 };
        let mut v = Vec::new();
        for flavour in [FL_LOCAL, FL_SYNC, FL_CHECKED, FL_SHARED, FL_SHARED_CHECKED] {
            for y in [BUF_ARRAY, BUF_FIXED, BUF_GROWING] {
                for x in [0u8, 1, 2, 3, 5] {
                    v.push(Cfg { flavour, mode: 0, x, y, k, sw: 0 });
                }
            }
        }
        // mode 1: capacity 12, and the history starts with 9 try_send calls (deep buffer states)
        for flavour in [FL_LOCAL, FL_SYNC, FL_SHARED_CHECKED] {
            for y in [BUF_ARRAY, BUF_FIXED, BUF_GROWING] {
                v.push(Cfg { flavour, mode: 1, x: 12, y, k, sw: 0 });
            }
        }
        v
    }
    fn enum_configs(&self, tier: Tier) -> Vec<(Cfg, usize)> {
        let mut v = Vec::new();
        if tier == Tier::Quick {
            v.push((Cfg { flavour: FL_CHECKED, mode: 0, x: 0, y: BUF_ARRAY, k: 2, sw: 0 }, 6));
            v.push((Cfg { flavour: FL_CHECKED, mode: 0, x: 1, y: BUF_ARRAY, k: 2, sw: 0 }, 6));
        } else {
            for x in 0..=2u8 {
                v.push((Cfg { flavour: FL_CHECKED, mode: 0, x, y: BUF_ARRAY, k: 2, sw: 0 }, 8));
            }
            v.push((Cfg { flavour: FL_SHARED_CHECKED, mode: 0, x: 1, y: BUF_FIXED, k: 2, sw: 0 }, 7));
        }
        v
    }
    fn specs(&self, cfg: &Cfg) -> Vec<OpSpec> {
        let shared = cfg.flavour >= FL_SHARED;
        let h = if shared { 2 } else { 0 };
        vec![
            spec("send", 16, cfg.k, 0),
            spec("poll_send", 26, cfg.k, 2),
            spec("drop_send", 6, cfg.k, 0),
            spec("cancel_send", 5, cfg.k, 0),
            spec("receive", 14, cfg.k, 0),
            spec("poll_receive", 26, cfg.k, 2),
            spec("drop_receive", 6, cfg.k, 0),
            spec("try_send", if cfg.x > 0 { 6 } else { 0 }, 0, 0),
            spec("try_receive", 6, 0, 0),
            spec("close", 2, 3, 0),
            spec("stream", 3, 3, 0),
            spec("poll_stream", 10, 2, 0),
            spec("drop_stream", 2, 0, 0),
            spec("clone_sender", h, 3, 0),
            spec("drop_sender", h, 3, 0),
            spec("clone_receiver", h, 3, 0),
            spec("drop_receiver", h, 3, 0),
            spec("drop_value", 6, 3, 0),
            spec("probe_after_done", 1, cfg.k, 2),
        ]
    }
    fn run(&self, cfg: &Cfg, ops: &[Op], run: &mut Run) {
        let mut ex: Vec<Op> = Vec::new();
        let ops = if cfg.mode == 1 {
            for _ in 0..cfg.x.saturating_sub(3) {
                ex.push(Op { code: OP_TRY_SEND, a: 0, b: 0 });
            }
            ex.extend_from_slice(ops);
            &ex[..]
        } else {
            ops
        };
        macro_rules! with_lock {
            ($m:ty) => {
                match (cfg.y, cfg.x) {
                    (BUF_ARRAY, 0) => run_m::<$m, ArrayBuf<Tagged, [Tagged; 0]>>(cfg, ops, run),
                    (BUF_ARRAY, 1) => run_m::<$m, ArrayBuf<Tagged, [Tagged; 1]>>(cfg, ops, run),
                    (BUF_ARRAY, 2) => run_m::<$m, ArrayBuf<Tagged, [Tagged; 2]>>(cfg, ops, run),
                    (BUF_ARRAY, 3) => run_m::<$m, ArrayBuf<Tagged, [Tagged; 3]>>(cfg, ops, run),
                    (BUF_ARRAY, 12) => run_m::<$m, ArrayBuf<Tagged, [Tagged; 12]>>(cfg, ops, run),
                    (BUF_ARRAY, _) => run_m::<$m, ArrayBuf<Tagged, [Tagged; 5]>>(cfg, ops, run),
                    (BUF_FIXED, _) => run_m::<$m, FixedHeapBuf<Tagged>>(cfg, ops, run),
                    _ => run_m::<$m, GrowingHeapBuf<Tagged>>(cfg, ops, run),
                }
            };
        }
        match cfg.flavour {
            FL_LOCAL => with_lock!(Noop),
            FL_SYNC | FL_SHARED => with_lock!(PlLock),
            _ => with_lock!(CheckedLock),
        }
    }
    fn nontrivial(&self, prop: &str, c: u64) -> bool {
        let b = |i: u32| c & (1 << i) != 0;
        match prop {
            "C01" => b(CL_DROP_PENDING_WITH_OTHERS) || b(CL_DROP_WOKEN),
            "C08" => b(CL_DELIVERED) && b(CL_WITHDRAWN),
            "C09" => b(CL_TWO_IN_FLIGHT_PARKED_RECV),
            "C10" => b(CL_AVAILABLE_WHILE_RECV_PENDING) || b(CL_DROP_WOKEN_RECV) || b(CL_STEAL_FROM_NOTIFIED),
            "C11" => b(CL_CLOSE_WITH_PENDING) || b(CL_HANDLE_OPS_TWO),
            "C17" => (b(CL_REPOLL_PENDING) && b(CL_TERMINATED_SEEN) && b(CL_SHARED_REPOLL)) || b(CL_STREAM_TWO_ITEMS_END),
            "C18" => b(CL_THREE_PENDING_WAKE_ALL),
            _ => false,
        }
    }
    fn cfg_desc(&self, cfg: &Cfg) -> String {
        format!(
            "mpmc flavour={} buffer={} capacity={}{} send/recv slots={}",
            flavour_name(cfg.flavour),
            match cfg.y {
                BUF_ARRAY => "ArrayBuf",
                BUF_FIXED => "FixedHeapBuf",
                _ => "GrowingHeapBuf",
            },
            cfg.x,
            if cfg.mode == 1 { " (history starts with 9 try_send)" } else { "" },
            cfg.k
        )
    }
    fn class_names(&self) -> &'static [&'static str] {
        CLASS_NAMES
    }
}

// ---------------------------------------------------------------------------------------------
// flavour wrappers

type Tx<M, A> = sh::GenericSender<M, Tagged, A>;
type Rx<M, A> = sh::GenericReceiver<M, Tagged, A>;

pub(crate) enum Chan<M: RawMutex + 'static, A: RingBuf<Item = Tagged> + 'static> {
    B(GenericChannel<M, Tagged, A>),
    S { tx: RefCell<Vec<Tx<M, A>>>, rx: RefCell<Vec<Rx<M, A>>> },
}

pub enum SFut<'a, M: RawMutex + 'static> {
    B(ChannelSendFuture<'a, M, Tagged>),
    S(sh::ChannelSendFuture<M, Tagged>),
}

pub enum RFut<'a, M: RawMutex + 'static> {
    B(ChannelReceiveFuture<'a, M, Tagged>),
    S(sh::ChannelReceiveFuture<M, Tagged>),
}

pub enum Strm<'a, M: RawMutex + 'static, A: RingBuf<Item = Tagged> + 'static> {
    B(ChannelStream<'a, M, Tagged, A>),
    S(sh::SharedStream<M, Tagged, A>),
}

impl<'a, M: RawMutex + 'static> Future for SFut<'a, M> {
    type Output = Result<(), Tagged>;
    fn poll(self: Pin<&mut Self>, cx: &mut Context<'_>) -> Poll<Self::Output> {
        // Safety: structural pinning, the enum is never moved out of its box nor re-assigned.
        unsafe {
            match self.get_unchecked_mut() {
                SFut::B(f) => Pin::new_unchecked(f).poll(cx).map(|r| r.map_err(|e| e.0)),
                SFut::S(f) => Pin::new_unchecked(f).poll(cx).map(|r| r.map_err(|e| e.0)),
            }
        }
    }
}

impl<'a, M: RawMutex + 'static> SFut<'a, M> {
    fn terminated(&self) -> bool {
        match self {
            SFut::B(f) => f.is_terminated(),
            SFut::S(f) => f.is_terminated(),
        }
    }
    /// `cancel` takes `&mut self`; the future stays where it is (the crate's own tests call it
    /// the same way on pinned futures).
    fn cancel(self: Pin<&mut Self>) -> Option<Tagged> {
        unsafe {
            match self.get_unchecked_mut() {
                SFut::B(f) => f.cancel(),
                SFut::S(f) => f.cancel(),
            }
        }
    }
}

impl<'a, M: RawMutex + 'static> Future for RFut<'a, M> {
    type Output = Option<Tagged>;
    fn poll(self: Pin<&mut Self>, cx: &mut Context<'_>) -> Poll<Self::Output> {
        unsafe {
            match self.get_unchecked_mut() {
                RFut::B(f) => Pin::new_unchecked(f).poll(cx),
                RFut::S(f) => Pin::new_unchecked(f).poll(cx),
            }
        }
    }
}

impl<'a, M: RawMutex + 'static> RFut<'a, M> {
    fn terminated(&self) -> bool {
        match self {
            RFut::B(f) => f.is_terminated(),
            RFut::S(f) => f.is_terminated(),
        }
    }
}

/// The stream is driven through the `Future` interface of `Slot`: one poll = one `poll_next`.
impl<'a, M: RawMutex + 'static, A: RingBuf<Item = Tagged> + 'static> Future for Strm<'a, M, A> {
    type Output = Option<Tagged>;
    fn poll(self: Pin<&mut Self>, cx: &mut Context<'_>) -> Poll<Self::Output> {
        unsafe {
            match self.get_unchecked_mut() {
                Strm::B(s) => Pin::new_unchecked(s).poll_next(cx),
                Strm::S(s) => Pin::new_unchecked(s).poll_next(cx),
            }
        }
    }
}

impl<'a, M: RawMutex + 'static, A: RingBuf<Item = Tagged> + 'static> Strm<'a, M, A> {
    fn terminated(&self) -> bool {
        match self {
            Strm::B(s) => s.is_terminated(),
            Strm::S(s) => s.is_terminated(),
        }
    }
    fn close(&self) -> Option<CloseStatus> {
        match self {
            Strm::B(_) => None,
            Strm::S(s) => Some(s.close()),
        }
    }
}

fn next_where<F>(slots: &[Slot<F>], start: u8, pred: impl Fn(&Slot<F>) -> bool) -> Option<usize> {
    let n = slots.len();
    (0..n).map(|d| (start as usize + d) % n).find(|&i| pred(&slots[i]))
}

/// Life line of one value, harness-side knowledge only.
#[derive(Clone, Debug)]
pub(crate) struct Val {
    id: u16,
    /// send slot whose (alive, not completed, not cancelled) future was created with this value
    slot: Option<usize>,
    /// the send took effect (first poll on an open channel, or successful try_send)
    effect: bool,
    /// the send returned Ok to its caller
    ok: bool,
    received: bool,
    returned: bool,
    /// dropped together with its send future, the buffer or the channel
    discarded: bool,
    /// the sender is gone (dropped / cancelled) but the value was not dropped nor handed back:
    /// it sits in the buffer
    orphan: bool,
}

impl Val {
    fn terminal(&self) -> bool {
        self.received || self.returned || self.discarded
    }
}

pub(crate) struct Model {
    vals: Vec<Val>,
    /// ids in the order of their send effect
    fifo: Vec<u16>,
    closed: bool,
    newly_closed_seen: bool,
    tx_count: usize,
    rx_count: usize,
    handle_ops: u32,
    capacity: usize,
    delivered_by_stream: u32,
}

impl Model {
    fn val(&mut self, id: u16) -> &mut Val {
        self.vals.iter_mut().find(|v| v.id == id).expect("unknown id")
    }
    fn get(&self, id: u16) -> Option<&Val> {
        self.vals.iter().find(|v| v.id == id)
    }
    /// values whose send returned Ok and that nobody has received yet
    fn ok_unreceived(&self) -> usize {
        self.vals.iter().filter(|v| v.ok && !v.received && !v.discarded).count()
    }
}

include!("mpmc_run.rs");
