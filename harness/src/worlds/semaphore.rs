//! Semaphore world: interpreter + monitors for C05, C06, C07 and the cross-cutting C01, C17, C18.
//! Borrowed (`GenericSemaphore`) and shared (`GenericSharedSemaphore`) flavours run the same code
//! through thin enum wrappers.

use crate::common::lock::{CheckedLock, Noop, PlLock};
use crate::common::*;
use futures_core::future::FusedFuture;
use futures_intrusive::sync::{
    GenericSemaphore, GenericSemaphoreAcquireFuture, GenericSemaphoreReleaser, GenericSharedSemaphore, GenericSharedSemaphoreAcquireFuture,
    GenericSharedSemaphoreReleaser,
};
use lock_api::RawMutex;
use std::future::Future;
use std::pin::Pin;
use std::task::{Context, Poll};

pub struct SemaphoreWorld;

pub const OP_CREATE: u8 = 0;
pub const OP_POLL: u8 = 1;
pub const OP_DROP: u8 = 2;
pub const OP_TRY: u8 = 3;
pub const OP_RELEASE: u8 = 4;
pub const OP_DROP_REL: u8 = 5;
pub const OP_DISARM: u8 = 6;
pub const OP_CLONE_HANDLE: u8 = 7;
pub const OP_DROP_HANDLE: u8 = 8;
pub const OP_PROBE: u8 = 9;
pub const OP_OBSERVE: u8 = 10;
pub const OP_POLL_RACE: u8 = 11;

pub const CL_ACQ_AFTER_WAIT: u32 = 0;
pub const CL_RETURN: u32 = 1;
pub const CL_MIXED_PENDING: u32 = 2;
pub const CL_C06_SITUATION: u32 = 3;
pub const CL_BIG_HEAD_RELEASE: u32 = 4;
pub const CL_DROP_PENDING_WITH_OTHERS: u32 = 5;
pub const CL_DROP_WOKEN: u32 = 6;
pub const CL_REPOLL_PENDING: u32 = 7;
pub const CL_TERMINATED_SEEN: u32 = 8;
pub const CL_THREE_PENDING: u32 = 9;
pub const CL_FAIR: u32 = 10;
pub const CL_DISARM: u32 = 11;
pub const CL_HANDLE_OPS: u32 = 12;
pub const CL_PROBE: u32 = 13;
pub const CL_STEAL_FROM_WOKEN: u32 = 14;
pub const CL_WOKEN_REQUEUED: u32 = 15;
pub const CL_MULTI_WAKE: u32 = 16;
pub const CL_RACING_RELEASE: u32 = 17;

const CLASS_NAMES: &[&str] = &[
    "acquired-after-wait",
    "permits-returned",
    "mixed-sizes-pending",
    "c06-situation(release|drop|requeue with mixed sizes pending)",
    "big-head-with-release",
    "drop-pending-with-others",
    "drop-woken",
    "repoll-pending",
    "terminated-seen",
    "three-pending",
    "fair",
    "disarm",
    "handle-ops",
    "probe",
    "steal-from-woken",
    "woken-requeued",
    "one-op-woke-several",
    "poll-racing-with-release",
];

pub const MAX_RELEASERS: usize = 4;

/// Request sizes by op argument. Indices 0..=3 are the plain small requests; the wide domain
/// (configuration mode bit 1) adds requests that do not fit into 32 bits (on 64-bit targets) and
/// the largest request there is. None of the large ones can ever be satisfied in a history,
/// because releases are capped by the configuration.
pub const REQUESTS: [usize; 7] = [0, 1, 2, 3, (u32::MAX as usize).wrapping_add(1), (u32::MAX as usize).wrapping_add(3), usize::MAX];

/// Initial permits: cfg.x itself, or (wide domain, x >= 4) the largest count that still leaves
/// room for every release of the history: `usize::MAX - release_cap`.
fn initial_permits(cfg: &Cfg) -> usize {
    if cfg.mode & 2 != 0 && cfg.x >= 4 {
        usize::MAX - cfg.y as usize
    } else {
        cfg.x as usize
    }
}

fn request(arg: u8) -> usize {
    REQUESTS[arg as usize % REQUESTS.len()]
}

impl World for SemaphoreWorld {
    fn id(&self) -> u8 {
        2
    }
    fn shared_wakers(&self) -> bool {
        true
    }
    fn name(&self) -> &'static str {
        "semaphore"
    }
    fn props(&self) -> &'static [&'static str] {
        &["C01", "C05", "C06", "C07", "C17", "C18"]
    }
    fn configs(&self, tier: Tier) -> Vec<Cfg> {
        let k = if tier == Tier::Quick { 5 } else { 6 };
        let mut v = Vec::new();
        for flavour in [FL_LOCAL, FL_SYNC, FL_CHECKED, FL_SHARED, FL_SHARED_CHECKED] {
            for mode in [0u8, 1] {
                for x in 0..=3u8 {
                    v.push(Cfg { flavour, mode, x, y: 12, k, sw: 0 });
                }
            }
        }
        // wide request domain (mode bit 1): requests beyond 32 bits next to the small ones
        for flavour in [FL_LOCAL, FL_SHARED_CHECKED] {
            for mode in [2u8, 3] {
                v.push(Cfg { flavour, mode, x: 3, y: 12, k, sw: 0 });
                v.push(Cfg { flavour, mode, x: 4, y: 12, k, sw: 0 });
            }
        }
        // mode bit 2: polls that race with a release() of another thread
        for flavour in [FL_CHECKED, FL_SHARED_CHECKED] {
            for mode in [4u8, 5] {
                for x in [0u8, 1] {
                    v.push(Cfg { flavour, mode, x, y: 12, k, sw: 0 });
                }
            }
        }
        v
    }
    fn enum_configs(&self, tier: Tier) -> Vec<(Cfg, usize)> {
        let mut v = Vec::new();
        for mode in [0u8, 1] {
            if tier == Tier::Quick {
                v.push((Cfg { flavour: FL_CHECKED, mode, x: 0, y: 2, k: 2, sw: 0 }, 64));
                v.push((Cfg { flavour: FL_CHECKED, mode, x: 1, y: 3, k: 2, sw: 0 }, 64));
                v.push((Cfg { flavour: FL_CHECKED, mode: mode | 2, x: 2, y: 2, k: 2, sw: 0 }, 5));
                v.push((Cfg { flavour: FL_CHECKED, mode: mode | 2, x: 4, y: 2, k: 2, sw: 0 }, 5));
            } else {
                for (x, y) in [(0u8, 3u8), (1, 3), (2, 3), (3, 4)] {
                    v.push((Cfg { flavour: FL_CHECKED, mode, x, y, k: 3, sw: 0 }, 200));
                }
                v.push((Cfg { flavour: FL_SHARED_CHECKED, mode, x: 1, y: 3, k: 2, sw: 0 }, 200));
                v.push((Cfg { flavour: FL_CHECKED, mode: mode | 2, x: 2, y: 3, k: 2, sw: 0 }, 7));
                v.push((Cfg { flavour: FL_CHECKED, mode: mode | 2, x: 4, y: 3, k: 2, sw: 0 }, 7));
            }
        }
        v
    }
    fn specs(&self, cfg: &Cfg) -> Vec<OpSpec> {
        let shared = cfg.flavour >= FL_SHARED;
        let sizes = if cfg.mode & 2 != 0 { REQUESTS.len() as u8 } else { 4 };
        vec![
            spec("create", 20, cfg.k, sizes),
            spec("poll", 40, cfg.k, 2),
            spec("drop", 10, cfg.k, 0),
            spec("try_acquire", 6, sizes, 0),
            spec("release", 10, 4, 0),
            spec("drop_releaser", 16, 4, 0),
            spec("disarm", 3, 4, 0),
            spec("clone_handle", if shared { 2 } else { 0 }, 0, 0),
            spec("drop_handle", if shared { 2 } else { 0 }, 3, 0),
            spec("probe_after_done", 1, cfg.k, 0),
            spec("observe", 1, 0, 0),
            // poll (waker b & 1) while another thread calls release(1 + b / 2) at the first instant the
            // internal lock is free
            spec("poll_racing_release", if cfg.mode & 4 != 0 { 12 } else { 0 }, cfg.k, 8),
        ]
    }
    fn run(&self, cfg: &Cfg, ops: &[Op], run: &mut Run) {
        match cfg.flavour {
            FL_LOCAL => run_m::<Noop>(cfg, ops, run),
            FL_SYNC | FL_SHARED => run_m::<PlLock>(cfg, ops, run),
            _ => run_m::<CheckedLock>(cfg, ops, run),
        }
    }
    fn nontrivial(&self, prop: &str, c: u64) -> bool {
        let b = |i: u32| c & (1 << i) != 0;
        match prop {
            "C01" => b(CL_DROP_PENDING_WITH_OTHERS) || b(CL_DROP_WOKEN),
            "C05" => b(CL_ACQ_AFTER_WAIT) && b(CL_RETURN),
            "C06" => b(CL_C06_SITUATION),
            "C07" => b(CL_FAIR) && b(CL_BIG_HEAD_RELEASE),
            "C17" => b(CL_REPOLL_PENDING) && b(CL_TERMINATED_SEEN),
            "C18" => b(CL_THREE_PENDING) && b(CL_MULTI_WAKE),
            _ => false,
        }
    }
    fn cfg_desc(&self, cfg: &Cfg) -> String {
        format!(
            "semaphore flavour={} fair={} initial_permits={} release_cap={} slots={}",
            flavour_name(cfg.flavour),
            cfg.mode & 1 == 1,
            if initial_permits(cfg) > 3 { format!("usize::MAX-{}", cfg.y) } else { cfg.x.to_string() },
            cfg.y,
            cfg.k
        ) + if cfg.mode & 2 != 0 { " requests=0..3 and beyond 2^32" } else { "" }
    }
    fn class_names(&self) -> &'static [&'static str] {
        CLASS_NAMES
    }
}

// ---------------------------------------------------------------------------------------------
// flavour wrappers

pub enum Sem<M: RawMutex> {
    B(GenericSemaphore<M>),
    S(std::cell::RefCell<Vec<GenericSharedSemaphore<M>>>),
}

pub enum SemFut<'a, M: RawMutex> {
    B(GenericSemaphoreAcquireFuture<'a, M>),
    S(GenericSharedSemaphoreAcquireFuture<M>),
}

pub enum SemRel<'a, M: RawMutex> {
    B(GenericSemaphoreReleaser<'a, M>),
    S(GenericSharedSemaphoreReleaser<M>),
}

impl<'a, M: RawMutex> Future for SemFut<'a, M> {
    type Output = SemRel<'a, M>;
    fn poll(self: Pin<&mut Self>, cx: &mut Context<'_>) -> Poll<Self::Output> {
        // Safety: structural pinning; the enum is never moved out of its box nor re-assigned.
        unsafe {
            match self.get_unchecked_mut() {
                SemFut::B(f) => Pin::new_unchecked(f).poll(cx).map(SemRel::B),
                SemFut::S(f) => Pin::new_unchecked(f).poll(cx).map(SemRel::S),
            }
        }
    }
}

impl<'a, M: RawMutex> SemFut<'a, M> {
    fn terminated(&self) -> bool {
        match self {
            SemFut::B(f) => f.is_terminated(),
            SemFut::S(f) => f.is_terminated(),
        }
    }
}

impl<'a, M: RawMutex> SemRel<'a, M> {
    fn disarm(&mut self) -> usize {
        match self {
            SemRel::B(r) => r.disarm(),
            SemRel::S(r) => r.disarm(),
        }
    }
}

impl<M: RawMutex> Sem<M> {
    fn permits(&self) -> usize {
        match self {
            Sem::B(s) => s.permits(),
            Sem::S(v) => v.borrow()[0].permits(),
        }
    }
    fn release(&self, n: usize) {
        match self {
            Sem::B(s) => s.release(n),
            Sem::S(v) => v.borrow().last().unwrap().release(n),
        }
    }
    fn snapshot(&self, snap: &mut Snapshot) {
        match self {
            Sem::B(s) => s.verif_snapshot(&mut |it| snap.push(it)),
            Sem::S(v) => v.borrow()[0].verif_snapshot(&mut |it| snap.push(it)),
        }
    }
}

struct Held<'a, M: RawMutex> {
    rel: SemRel<'a, M>,
    amount: usize,
    armed: bool,
}

fn next_where<F>(slots: &[Slot<F>], start: u8, pred: impl Fn(&Slot<F>) -> bool) -> Option<usize> {
    let n = slots.len();
    (0..n).map(|d| (start as usize + d) % n).find(|&i| pred(&slots[i]))
}

fn run_m<M: RawMutex>(cfg: &Cfg, ops: &[Op], run: &mut Run) {
    tls::reset_history();
    tls::set_shared_b(cfg.sw == 1);
    let fair = cfg.mode & 1 == 1;
    let shared = cfg.flavour >= FL_SHARED;
    let initial = initial_permits(cfg);
    let cap = cfg.y as usize;
    if fair {
        run.class(CL_FAIR);
    }
    // an arithmetic overflow in the permit accounting is an over-grant
    run.panic_also = Some(("C05", "overflow"));
    // for the shared flavour the handles live in a Vec that is never emptied while futures need
    // a handle to be created; the last handle is only dropped at teardown
    let sem: Sem<M> =
        if shared { Sem::S(std::cell::RefCell::new(vec![GenericSharedSemaphore::new(fair, initial)])) } else { Sem::B(GenericSemaphore::new(fair, initial)) };
    let sem_ref: &Sem<M> = &sem;
    let k = cfg.k as usize;
    let mut slots: Vec<Slot<SemFut<'_, M>>> = (0..k).map(|i| Slot::new(i as u8)).collect();
    let mut held: Vec<Held<'_, M>> = Vec::new();
    let mut ledger: usize = initial;
    // bounded by the configuration's release cap; a huge initial count does not count towards it
    // (it leaves exactly `cap` permits of head room below usize::MAX)
    let mut released_total: usize = if initial > 3 { 0 } else { initial };
    let mut snap = Snapshot::default();
    let mut order: Vec<(u8, u8, u8, u8, u64)> = Vec::new();

    macro_rules! monitors {
        () => {{
            if !run.failed() {
                monitors(sem_ref, fair, &slots, ledger, released_total, &held, &mut snap, &mut order, run);
            }
        }};
    }

    // a completed acquisition of n permits by `who`
    macro_rules! acquired {
        ($rel:expr, $n:expr, $who:expr) => {{
            let rel: SemRel<'_, M> = $rel;
            let n: usize = $n;
            let who: Option<usize> = $who;
            if ledger < n {
                run.violate("C05", "over-grant", format!("an acquisition of {} permits completed while only {} were available", n, ledger));
                std::mem::forget(rel);
            } else {
                if fair && n > 0 {
                    let my_arrival = who.map(|i| slots[i].arrival).filter(|a| *a != 0).unwrap_or(u64::MAX);
                    for (j, s) in slots.iter().enumerate() {
                        if Some(j) != who && s.pending() && s.arrival != 0 && s.arrival < my_arrival {
                            run.violate(
                                "C07",
                                "overtaking",
                                format!(
                                    "fair semaphore: {} acquired {} permits although slot {} (request {}) started waiting earlier and is still pending",
                                    who.map(|i| format!("slot {}", i)).unwrap_or("try_acquire".into()),
                                    n,
                                    j,
                                    s.num
                                ),
                            );
                        }
                    }
                }
                ledger -= n;
                if n == 0 || held.len() >= MAX_RELEASERS {
                    // keep the number of held releasers bounded (and never keep empty ones): give
                    // this one back right away
                    run.call("drop(releaser)", || drop(rel));
                    ledger += n;
                    if n > 0 {
                        run.class(CL_RETURN);
                    }
                } else {
                    held.push(Held { rel, amount: n, armed: true });
                }
            }
        }};
    }

    monitors!();
    for (i, op) in ops.iter().enumerate() {
        if run.failed() {
            break;
        }
        run.set_step(i);
        run.steps += 1;
        let op = &recycle(op, &slots, &[OP_CREATE], OP_POLL, OP_DROP);
        tls::clear_op_log();
        tls::alloc_reset();
        let allow_alloc = false;
        let pend: Vec<usize> = (0..k).filter(|&j| slots[j].pending()).collect();
        let mixed = pend.len() >= 2 && pend.iter().any(|&j| slots[j].num != slots[pend[0]].num);
        if mixed {
            run.class(CL_MIXED_PENDING);
        }
        let head = pend.iter().copied().min_by_key(|&j| slots[j].arrival);
        let big_head = head.is_some_and(|h| pend.iter().any(|&j| slots[j].num < slots[h].num));
        match op.code {
            OP_CREATE => match next_where(&slots, op.a, |s| !s.alive()) {
                Some(s) => {
                    let n = request(op.b);
                    let f = run.call("acquire()", || match sem_ref {
                        Sem::B(b) => SemFut::B(b.acquire(n)),
                        Sem::S(v) => SemFut::S(v.borrow().last().unwrap().acquire(n)),
                    });
                    if let Some(f) = f {
                        slots[s].install(f);
                        slots[s].num = n as u64;
                        run.note(|| format!("create slot {} acquire({})", s, n));
                    }
                }
                None => run.noops += 1,
            },
            OP_POLL | OP_POLL_RACE => match next_where(&slots, op.a, |s| s.pollable()) {
                Some(s) => {
                    let was_pending = slots[s].pending();
                    let was_woken = slots[s].woken();
                    let n = slots[s].num as usize;
                    let rel_n = 1 + (op.b as usize >> 1);
                    let race = op.code == OP_POLL_RACE && cfg.mode & 4 != 0 && released_total + rel_n <= cap;
                    let op = &Op { code: OP_POLL, a: op.a, b: op.b & 1 };
                    unsafe fn inject<M: RawMutex>(ctx: usize) {
                        let (sem, n) = *(ctx as *const (*const Sem<M>, usize));
                        (*sem).release(n);
                    }
                    let ctx: (*const Sem<M>, usize) = (sem_ref as *const Sem<M>, rel_n);
                    let mut late_release = 0;
                    if race {
                        run.class(CL_RACING_RELEASE);
                        tls::install_unlock_hook(&ctx as *const (*const Sem<M>, usize) as usize, inject::<M>);
                    }
                    let r = slots[s].poll(op.b, run);
                    if race {
                        let (fired, relocked) = tls::remove_unlock_hook();
                        if !fired && !run.failed() {
                            run.call("release()", || sem_ref.release(rel_n));
                        }
                        run.note(|| format!("  (racing release({}): inside the poll: {}, poll locked again afterwards: {})", rel_n, fired, relocked));
                        released_total += rel_n;
                        if relocked {
                            // the poll may have looked at the permits again after the release
                            ledger += rel_n;
                        } else {
                            late_release = rel_n;
                        }
                    }
                    match r {
                        Some(Poll::Ready(rel)) => {
                            if slots[s].arrival != 0 && n > 0 {
                                run.class(CL_ACQ_AFTER_WAIT);
                            }
                            run.note(|| format!("poll slot {} waker {} -> Ready (acquired {})", s, op.b, n));
                            if fair && n == 0 && slots[s].polls > 1 {
                                run.violate("C07", "zero-request-waited", format!("acquire(0) in slot {} did not complete on its first poll", s));
                            }
                            acquired!(rel, n, Some(s));
                        }
                        Some(Poll::Pending) => {
                            if fair && n == 0 {
                                run.violate("C07", "zero-request-pending", format!("acquire(0) in slot {} returned Pending", s));
                            }
                            if was_pending {
                                run.class(CL_REPOLL_PENDING);
                            }
                            if was_woken {
                                run.class(CL_WOKEN_REQUEUED);
                                if mixed {
                                    run.class(CL_C06_SITUATION);
                                }
                                if !fair {
                                    // unfair mode: a woken future that found too few permits waits anew
                                    slots[s].arrival = slots[s].poll_seq;
                                }
                            }
                            run.note(|| format!("poll slot {} waker {} -> Pending", s, op.b));
                        }
                        None => {}
                    }
                    // one critical section per poll: the release came after the poll took effect
                    ledger += late_release;
                }
                None => run.noops += 1,
            },
            OP_DROP => match next_where(&slots, op.a, |s| s.alive()) {
                Some(s) => {
                    if slots[s].pending() {
                        if pend.len() >= 2 {
                            run.class(CL_DROP_PENDING_WITH_OTHERS);
                            if mixed {
                                run.class(CL_C06_SITUATION);
                            }
                        }
                        if slots[s].woken() {
                            run.class(CL_DROP_WOKEN);
                        }
                    }
                    slots[s].drop_fut(run, "drop(acquire future)");
                    run.note(|| format!("drop slot {}", s));
                }
                None => run.noops += 1,
            },
            OP_TRY => {
                let n = request(op.a);
                let r = run.call("try_acquire()", || match sem_ref {
                    Sem::B(b) => b.try_acquire(n).map(SemRel::B),
                    Sem::S(v) => v.borrow().last().unwrap().try_acquire(n).map(SemRel::S),
                });
                if let Some(r) = r {
                    run.note(|| format!("try_acquire({}) -> {}", n, if r.is_some() { "Some" } else { "None" }));
                    match r {
                        Some(rel) => {
                            if n > 0 && pend.iter().any(|&j| slots[j].woken()) {
                                run.class(CL_STEAL_FROM_WOKEN);
                            }
                            acquired!(rel, n, None);
                        }
                        None => {
                            if fair && n == 0 {
                                run.violate("C07", "zero-request-refused", "try_acquire(0) returned None".into());
                            }
                        }
                    }
                }
            }
            OP_RELEASE => {
                let n = op.a as usize;
                if released_total + n > cap {
                    run.noops += 1;
                } else {
                    if mixed && n > 0 {
                        run.class(CL_C06_SITUATION);
                    }
                    if big_head && n > 0 {
                        run.class(CL_BIG_HEAD_RELEASE);
                    }
                    run.call("release()", || sem_ref.release(n));
                    ledger += n;
                    released_total += n;
                    run.note(|| format!("release({})", n));
                }
            }
            OP_DROP_REL => {
                if held.is_empty() {
                    run.noops += 1;
                } else {
                    let idx = op.a as usize % held.len();
                    let h = held.remove(idx);
                    let back = if h.armed { h.amount } else { 0 };
                    if mixed && back > 0 {
                        run.class(CL_C06_SITUATION);
                    }
                    if big_head && back > 0 {
                        run.class(CL_BIG_HEAD_RELEASE);
                    }
                    if back > 0 {
                        run.class(CL_RETURN);
                    }
                    let rel = h.rel;
                    run.call("drop(releaser)", || drop(rel));
                    ledger += back;
                    run.note(|| format!("drop releaser #{} (returns {})", idx, back));
                }
            }
            OP_DISARM => {
                if held.is_empty() {
                    run.noops += 1;
                } else {
                    let idx = op.a as usize % held.len();
                    let expect = if held[idx].armed { held[idx].amount } else { 0 };
                    let rel = &mut held[idx].rel;
                    if let Some(got) = run.call("disarm()", || rel.disarm()) {
                        run.class(CL_DISARM);
                        if got != expect {
                            run.violate("C05", "disarm-amount", format!("disarm() returned {} for a releaser that holds {} permits", got, expect));
                        }
                        held[idx].armed = false;
                        run.note(|| format!("disarm releaser #{} -> {}", idx, got));
                    }
                }
            }
            OP_CLONE_HANDLE => {
                match sem_ref {
                    Sem::S(v) if v.borrow().len() < 3 => {
                        let c = {
                            let vb = v.borrow();
                            let h0 = &vb[0];
                            run.call("clone(handle)", || h0.clone())
                        };
                        if let Some(c) = c {
                            v.borrow_mut().push(c);
                            run.class(CL_HANDLE_OPS);
                            run.note(|| "clone handle".to_string());
                        }
                    }
                    _ => run.noops += 1,
                }
            }
            OP_DROP_HANDLE => match sem_ref {
                Sem::S(v) if v.borrow().len() > 1 => {
                    let idx = op.a as usize % v.borrow().len();
                    let h = v.borrow_mut().remove(idx);
                    run.call("drop(handle)", || drop(h));
                    run.class(CL_HANDLE_OPS);
                    run.note(|| format!("drop handle #{}", idx));
                }
                _ => run.noops += 1,
            },
            OP_PROBE => {
                if !run.allow_probe {
                    run.noops += 1;
                } else {
                    match next_where(&slots, op.a, |s| s.alive() && s.done) {
                        Some(s) => {
                            run.class(CL_PROBE);
                            slots[s].probe_after_done(run, "semaphore acquire future");
                            run.note(|| format!("probe slot {} after completion", s));
                        }
                        None => run.noops += 1,
                    }
                }
            }
            _ => {
                run.call("permits()", || sem_ref.permits());
            }
        }
        let (a, d) = tls::alloc_counts();
        if (a, d) != (0, 0) && !allow_alloc && !run.failed() {
            run.violate("C18", "allocation", format!("op {:?} performed {} allocations and {} deallocations", op, a, d));
        }
        if allow_alloc && a > 0 && !run.failed() {
            run.violate("C18", "allocation", format!("op {:?} allocated ({} allocations) - only the release of an owner may free memory", op, a));
        }
        let p = slots.iter().filter(|s| s.pending()).count();
        if p >= 3 {
            run.class(CL_THREE_PENDING);
        }
        if tls::op_log_len() >= 2 {
            run.class(CL_MULTI_WAKE);
        }
        monitors!();
    }

    let fp_end = run.fp;
    if !run.failed() {
        run.set_step(ops.len());
        for s in 0..k {
            if slots[s].alive() && !run.failed() {
                slots[s].drop_fut(run, "drop(acquire future)");
                monitors!();
            }
        }
        while let Some(h) = held.pop() {
            if run.failed() {
                std::mem::forget(h);
                continue;
            }
            let back = if h.armed { h.amount } else { 0 };
            let rel = h.rel;
            run.call("drop(releaser)", || drop(rel));
            ledger += back;
            monitors!();
        }
        if tls::waker_overdrop() && !run.failed() {
            run.violate("C01", "waker-dropped-twice", "a waker was dropped more often than it was cloned".into());
        }
    }
    run.fp = fp_end;
    if run.failed() {
        for s in slots.iter_mut() {
            s.leak();
        }
        while let Some(h) = held.pop() {
            std::mem::forget(h);
        }
    }
    drop(slots);
    drop(held);
    if run.failed() {
        std::mem::forget(sem);
    }
}

#[allow(clippy::too_many_arguments)]
fn monitors<M: RawMutex>(
    sem: &Sem<M>,
    fair: bool,
    slots: &[Slot<SemFut<'_, M>>],
    ledger: usize,
    released_total: usize,
    held: &[Held<'_, M>],
    snap: &mut Snapshot,
    order: &mut Vec<(u8, u8, u8, u8, u64)>,
    run: &mut Run,
) {
    // C05: conservation
    let permits = sem.permits();
    if permits != ledger {
        run.violate(
            "C05",
            "permits-not-conserved",
            format!("permits() == {} but initial + released + returned - acquired == {}", permits, ledger),
        );
        if run.failed() {
            return;
        }
    }
    // C06: the longest waiting acquirer is never stranded
    let pend: Vec<usize> = (0..slots.len()).filter(|&i| slots[i].pending()).collect();
    if !pend.is_empty() && !pend.iter().any(|&i| slots[i].woken()) {
        // With a waker shared by all slots, "woken through the waker of its latest poll" no longer
        // says which future the semaphore notified, so in unfair mode (where a notified future
        // that re-queues starts a new wait) the harness cannot tell who waits longest. Then the
        // check is made for the candidate that is hardest to satisfy: whoever the head is, it fits.
        let ambiguous = !fair && tls::shared_b();
        let head = if ambiguous { *pend.iter().max_by_key(|&&i| slots[i].num).unwrap() } else { *pend.iter().min_by_key(|&&i| slots[i].arrival).unwrap() };
        let req = slots[head].num as usize;
        if req <= permits {
            run.violate(
                "C06",
                "head-stranded",
                format!(
                    "pending futures {:?} hold no unconsumed wake-up, yet the longest-waiting one (slot {}, request {}) fits into the {} available permits",
                    pend, head, req, permits
                ),
            );
            if run.failed() {
                return;
            }
        }
    }
    // C17
    for (i, s) in slots.iter().enumerate() {
        if let Some(f) = s.fut.as_ref() {
            let t = f.terminated();
            if t {
                run.class(CL_TERMINATED_SEEN);
            }
            if t != s.done {
                run.violate("C17", "is_terminated-mismatch", format!("slot {}: is_terminated() == {} but completed == {}", i, t, s.done));
                if run.failed() {
                    return;
                }
            }
        }
    }
    // C01
    snap.clear();
    sem.snapshot(snap);
    let views: Views = slots
        .iter()
        .enumerate()
        .map(|(i, s)| SlotView { queue: 0, idx: i as u8, range: s.range(), pending: s.pending(), woken: s.woken() })
        .collect();
    check_list_queues(snap, &[0], &views, run, order, "C06");

    if run.want_fp {
        let mut h = H128::new();
        h.u64(permits as u64);
        h.u64(released_total as u64);
        let mut hs: Vec<(usize, bool)> = held.iter().map(|x| (x.amount, x.armed)).collect();
        hs.sort_unstable();
        for (a, ar) in hs {
            h.u64(a as u64);
            h.u8(ar as u8);
        }
        h.u8(0xfe);
        if let Sem::S(v) = sem {
            h.u8(v.borrow().len() as u8);
        }
        let mut arr: Vec<u64> = slots.iter().filter(|s| s.alive() && s.arrival != 0).map(|s| s.arrival).collect();
        arr.sort_unstable();
        for s in slots {
            h.u8(s.alive() as u8);
            h.u8(s.polled as u8);
            h.u8(s.done as u8);
            h.u8(s.last_w);
            h.u8(s.woken() as u8);
            h.u64(s.num);
            h.u8(if s.alive() && s.arrival != 0 { 1 + arr.iter().position(|a| *a == s.arrival).unwrap() as u8 } else { 0 });
        }
        for o in order.iter() {
            h.bytes(&[o.0, o.1, o.2, o.3, o.4 as u8]);
        }
        run.fp = h.finish();
    }
}
