//! Worlds: one interpreter + monitor set per primitive.

pub mod collections;
pub mod event;
pub mod mpmc;
pub mod mpmc_zst;
pub mod mutex;
pub mod oneshot;
pub mod ringbuf;
pub mod semaphore;
pub mod state;
pub mod tasks;
pub mod timer;

use crate::common::World;

pub fn all() -> Vec<&'static dyn World> {
    vec![&mutex::MutexWorld, &semaphore::SemaphoreWorld, &event::EventWorld, &timer::TimerWorld, &oneshot::OneshotWorld, &state::StateWorld, &mpmc::MpmcWorld, &ringbuf::RingBufWorld, &collections::ListWorld, &collections::HeapWorld, &tasks::TaskMutexWorld, &tasks::TaskSemaphoreWorld, &tasks::TaskEventWorld, &tasks::TaskMpmcWorld, &tasks::TaskOneshotWorld, &tasks::TaskStateWorld, &tasks::TaskTimerWorld, &mpmc_zst::MpmcZstWorld]
}

pub fn by_name(name: &str) -> Option<&'static dyn World> {
    all().into_iter().find(|w| w.name() == name)
}
