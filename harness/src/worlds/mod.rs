//! Worlds: one interpreter + monitor set per primitive.

pub mod mutex;

use crate::common::World;

pub fn all() -> Vec<&'static dyn World> {
    vec![&mutex::MutexWorld]
}

pub fn by_name(name: &str) -> Option<&'static dyn World> {
    all().into_iter().find(|w| w.name() == name)
}
