//! Mutex world: interpreter + monitors for C02, C03, C04 and the cross-cutting C01, C17, C18.

use crate::common::lock::{CheckedLock, Noop, PlLock};
use crate::common::*;
use futures_core::future::FusedFuture;
use futures_intrusive::sync::{GenericMutex, GenericMutexGuard, GenericMutexLockFuture};
use lock_api::RawMutex;
use std::task::Poll;

pub struct MutexWorld;

pub const OP_CREATE: u8 = 0;
pub const OP_POLL: u8 = 1;
pub const OP_DROP: u8 = 2;
pub const OP_TRYLOCK: u8 = 3;
pub const OP_UNLOCK: u8 = 4;
pub const OP_PROBE: u8 = 5;
pub const OP_OBSERVE: u8 = 6;
pub const OP_POLL_RACE: u8 = 7;

// class bits
pub const CL_ATTEMPT_WHILE_LOCKED: u32 = 0;
pub const CL_TWO_ACQ: u32 = 1;
pub const CL_UNLOCK_WITH_PENDING: u32 = 2;
pub const CL_DROP_WOKEN_WITH_PENDING: u32 = 3;
pub const CL_WAKER_SWAPPED_HANDOFF: u32 = 4;
pub const CL_TWO_PENDING: u32 = 5;
pub const CL_COMPLETE_AFTER_WAIT: u32 = 6;
pub const CL_DROP_PENDING_WITH_OTHERS: u32 = 7;
pub const CL_DROP_WOKEN: u32 = 8;
pub const CL_DROP_MIDDLE: u32 = 9;
pub const CL_REPOLL_PENDING: u32 = 10;
pub const CL_THREE_PENDING: u32 = 11;
pub const CL_TERMINATED_SEEN: u32 = 12;
pub const CL_PROBE: u32 = 13;
pub const CL_RACING_UNLOCK: u32 = 14;

const CLASS_NAMES: &[&str] = &[
    "attempt-while-locked",
    "two-acquisitions",
    "unlock-with-pending",
    "drop-woken-with-pending",
    "waker-swapped-before-handoff",
    "two-pending",
    "complete-after-wait",
    "drop-pending-with-others",
    "drop-woken",
    "drop-middle",
    "repoll-pending",
    "three-pending",
    "terminated-seen",
    "probe",
    "poll-racing-with-unlock",
];

impl World for MutexWorld {
    fn id(&self) -> u8 {
        1
    }
    fn shared_wakers(&self) -> bool {
        true
    }
    fn name(&self) -> &'static str {
        "mutex"
    }
    fn props(&self) -> &'static [&'static str] {
        &["C01", "C02", "C03", "C04", "C17", "C18"]
    }
    fn configs(&self, tier: Tier) -> Vec<Cfg> {
        let k = if tier == Tier::Quick { 5 } else { 6 };
        let mut v = Vec::new();
        for flavour in [FL_LOCAL, FL_SYNC, FL_CHECKED] {
            for mode in [0u8, 1] {
                v.push(Cfg { flavour, mode, x: 0, y: 0, k, sw: 0 });
            }
        }
        // y = 1: polls that race with the guard being dropped by another thread
        for mode in [0u8, 1] {
            v.push(Cfg { flavour: FL_CHECKED, mode, x: 0, y: 1, k, sw: 0 });
        }
        v
    }
    fn enum_configs(&self, tier: Tier) -> Vec<(Cfg, usize)> {
        let mut v = Vec::new();
        let k = 3;
        let _ = tier;
        for mode in [0u8, 1] {
            v.push((Cfg { flavour: FL_CHECKED, mode, x: 0, y: 0, k, sw: 0 }, 64));
        }
        v
    }
    fn specs(&self, cfg: &Cfg) -> Vec<OpSpec> {
        vec![
            spec("create", 20, cfg.k, 0),
            spec("poll", 40, cfg.k, 2),
            spec("drop", 12, cfg.k, 0),
            spec("try_lock", 6, 0, 0),
            spec("unlock", 18, 0, 0),
            spec("probe_after_done", 1, cfg.k, 0),
            spec("observe", 2, 0, 0),
            // poll while another thread drops the guard at the first instant the internal lock is free
            spec("poll_racing_unlock", if cfg.y == 1 { 14 } else { 0 }, cfg.k, 2),
        ]
    }
    fn run(&self, cfg: &Cfg, ops: &[Op], run: &mut Run) {
        match cfg.flavour {
            FL_LOCAL => run_m::<Noop>(cfg, ops, run),
            FL_SYNC => run_m::<PlLock>(cfg, ops, run),
            _ => run_m::<CheckedLock>(cfg, ops, run),
        }
    }
    fn nontrivial(&self, prop: &str, c: u64) -> bool {
        let b = |i: u32| c & (1 << i) != 0;
        match prop {
            "C01" => b(CL_DROP_PENDING_WITH_OTHERS) || b(CL_DROP_WOKEN),
            "C02" => b(CL_ATTEMPT_WHILE_LOCKED) && b(CL_TWO_ACQ),
            "C03" => b(CL_UNLOCK_WITH_PENDING) || b(CL_DROP_WOKEN_WITH_PENDING),
            "C04" => b(CL_TWO_PENDING) && b(CL_COMPLETE_AFTER_WAIT),
            "C17" => b(CL_REPOLL_PENDING) && b(CL_TERMINATED_SEEN),
            "C18" => b(CL_THREE_PENDING),
            _ => false,
        }
    }
    fn cfg_desc(&self, cfg: &Cfg) -> String {
        format!("mutex flavour={} fair={} slots={}{}", flavour_name(cfg.flavour), cfg.mode == 1, cfg.k, if cfg.y == 1 { " racing-unlock" } else { "" })
    }
    fn class_names(&self) -> &'static [&'static str] {
        CLASS_NAMES
    }
}

type Fut<'a, M> = GenericMutexLockFuture<'a, M, u64>;

fn next_where<F>(slots: &[Slot<F>], start: u8, pred: impl Fn(&Slot<F>) -> bool) -> Option<usize> {
    let n = slots.len();
    (0..n).map(|d| (start as usize + d) % n).find(|&i| pred(&slots[i]))
}

fn run_m<M: RawMutex>(cfg: &Cfg, ops: &[Op], run: &mut Run) {
    tls::reset_history();
    tls::set_shared_b(cfg.sw == 1);
    let fair = cfg.mode == 1;
    let mutex: GenericMutex<M, u64> = GenericMutex::new(0, fair);
    let k = cfg.k as usize;
    let mut slots: Vec<Slot<Fut<'_, M>>> = (0..k).map(|i| Slot::new(i as u8)).collect();
    let mut guard: Option<GenericMutexGuard<'_, M, u64>> = None;
    let mut counter: u64 = 0;
    let mut acquisitions: u32 = 0;
    let mut snap = Snapshot::default();
    let mut order: Vec<(u8, u8, u8, u8, u64)> = Vec::new();

    // executes after every op
    macro_rules! monitors {
        () => {{
            if !run.failed() {
                monitors(&mutex, fair, &slots, &guard, counter, &mut snap, &mut order, run);
            }
        }};
    }

    // a successful acquisition by `who` (slot index or None for try_lock)
    macro_rules! acquired {
        ($g:expr, $who:expr) => {{
            let g: GenericMutexGuard<'_, M, u64> = $g;
            if guard.is_some() {
                run.violate("C02", "second-guard", format!("{:?} obtained a guard while another guard is alive", $who as Option<usize>));
                std::mem::forget(g);
            } else {
                // C04: no other pending future started waiting earlier
                if fair {
                    let who: Option<usize> = $who;
                    let my_arrival = who.map(|i| slots[i].arrival).filter(|a| *a != 0).unwrap_or(u64::MAX);
                    for (j, s) in slots.iter().enumerate() {
                        if Some(j) != who && s.pending() && s.arrival != 0 && s.arrival < my_arrival {
                            run.violate(
                                "C04",
                                "barging",
                                format!("fair mutex: {} acquired although slot {} started waiting earlier and is still pending", who.map(|i| format!("slot {}", i)).unwrap_or("try_lock".into()), j),
                            );
                        }
                    }
                }
                acquisitions += 1;
                if acquisitions >= 2 {
                    run.class(CL_TWO_ACQ);
                }
                guard = Some(g);
                // deref reaches the protected value
                let gm = guard.as_mut().unwrap();
                let seen = **gm;
                if seen != counter {
                    run.violate("C02", "protected-value", format!("value behind the guard is {} but {} increments were made", seen, counter));
                }
                **gm += 1;
                counter += 1;
            }
        }};
    }

    monitors!();
    for (i, op) in ops.iter().enumerate() {
        if run.failed() {
            break;
        }
        run.set_step(i);
        run.steps += 1;
        let op = &recycle(op, &slots, &[OP_CREATE], OP_POLL, OP_DROP);
        tls::clear_op_log();
        tls::alloc_reset();
        let pending_before = slots.iter().filter(|s| s.pending()).count();
        match op.code {
            OP_CREATE => match next_where(&slots, op.a, |s| !s.alive()) {
                Some(s) => {
                    if let Some(f) = run.call("lock()", || mutex.lock()) {
                        slots[s].install(f);
                        run.note(|| format!("create slot {}", s));
                    }
                }
                None => run.noops += 1,
            },
            OP_POLL | OP_POLL_RACE => match next_where(&slots, op.a, |s| s.pollable()) {
                Some(s) => {
                    let was_pending = slots[s].pending();
                    let prev_w = slots[s].last_w;
                    let was_woken = slots[s].woken();
                    if guard.is_some() {
                        run.class(CL_ATTEMPT_WHILE_LOCKED);
                    }
                    // the holder (another thread) drops its guard at the first instant inside this
                    // poll at which the mutex' internal lock is free
                    let race = op.code == OP_POLL_RACE && cfg.y == 1 && cfg.flavour == FL_CHECKED && guard.is_some();
                    unsafe fn inject<'x, M: RawMutex + 'x>(ctx: usize) {
                        drop((*(ctx as *mut Option<GenericMutexGuard<'x, M, u64>>)).take());
                    }
                    if race {
                        run.class(CL_RACING_UNLOCK);
                        if pending_before >= 1 {
                            run.class(CL_UNLOCK_WITH_PENDING);
                        }
                        tls::install_unlock_hook(&mut guard as *mut Option<GenericMutexGuard<'_, M, u64>> as usize, inject::<M>);
                    }
                    let r = slots[s].poll(op.b, run);
                    if race {
                        let (fired, relocked) = tls::remove_unlock_hook();
                        if !fired {
                            if let Some(g) = guard.take() {
                                run.call("drop(guard)", || drop(g));
                            }
                        }
                        run.note(|| format!("  (racing unlock: inside the poll: {}, poll locked again afterwards: {})", fired, relocked));
                    }
                    match r {
                        Some(Poll::Ready(g)) => {
                            if slots[s].arrival != 0 {
                                run.class(CL_COMPLETE_AFTER_WAIT);
                                if was_woken && slots[s].flag {
                                    run.class(CL_WAKER_SWAPPED_HANDOFF);
                                }
                            }
                            run.note(|| format!("poll slot {} waker {} -> Ready", s, op.b));
                            acquired!(g, Some(s));
                        }
                        Some(Poll::Pending) => {
                            if was_pending {
                                run.class(CL_REPOLL_PENDING);
                                if prev_w != op.b {
                                    slots[s].flag = true; // waker swapped while waiting
                                }
                            }
                            // unfair mode: a woken future that finds the mutex taken waits anew
                            if was_woken && !fair {
                                slots[s].arrival = slots[s].poll_seq;
                            }
                            run.note(|| format!("poll slot {} waker {} -> Pending", s, op.b));
                        }
                        None => {}
                    }
                }
                None => run.noops += 1,
            },
            OP_DROP => match next_where(&slots, op.a, |s| s.alive()) {
                Some(s) => {
                    if slots[s].pending() {
                        if pending_before >= 2 {
                            run.class(CL_DROP_PENDING_WITH_OTHERS);
                            let older = slots.iter().filter(|o| o.pending() && o.arrival < slots[s].arrival).count();
                            let newer = slots.iter().filter(|o| o.pending() && o.arrival > slots[s].arrival).count();
                            if older > 0 && newer > 0 {
                                run.class(CL_DROP_MIDDLE);
                            }
                        }
                        if slots[s].woken() {
                            run.class(CL_DROP_WOKEN);
                            if pending_before >= 2 {
                                run.class(CL_DROP_WOKEN_WITH_PENDING);
                            }
                        }
                    }
                    slots[s].drop_fut(run, "drop(lock future)");
                    run.note(|| format!("drop slot {}", s));
                }
                None => run.noops += 1,
            },
            OP_TRYLOCK => {
                if guard.is_some() {
                    run.class(CL_ATTEMPT_WHILE_LOCKED);
                }
                if let Some(r) = run.call("try_lock()", || mutex.try_lock()) {
                    run.note(|| format!("try_lock -> {}", if r.is_some() { "Some" } else { "None" }));
                    if let Some(g) = r {
                        acquired!(g, None);
                    }
                }
            }
            OP_UNLOCK => match guard.take() {
                Some(g) => {
                    if pending_before >= 1 {
                        run.class(CL_UNLOCK_WITH_PENDING);
                    }
                    run.call("drop(guard)", || drop(g));
                    run.note(|| "unlock".to_string());
                }
                None => run.noops += 1,
            },
            OP_PROBE => {
                if !run.allow_probe {
                    run.noops += 1;
                } else {
                    match next_where(&slots, op.a, |s| s.alive() && s.done) {
                        Some(s) => {
                            run.class(CL_PROBE);
                            slots[s].probe_after_done(run, "mutex lock future");
                            run.note(|| format!("probe slot {} after completion", s));
                        }
                        None => run.noops += 1,
                    }
                }
            }
            _ => {
                run.call("is_locked()", || mutex.is_locked());
            }
        }
        // C18: nothing in this world may allocate or free
        let (a, d) = tls::alloc_counts();
        if (a, d) != (0, 0) && !run.failed() {
            run.violate("C18", "allocation", format!("op {:?} performed {} allocations and {} deallocations", op, a, d));
        }
        let p = slots.iter().filter(|s| s.pending()).count();
        if p >= 2 {
            run.class(CL_TWO_PENDING);
        }
        if p >= 3 {
            run.class(CL_THREE_PENDING);
        }
        monitors!();
    }

    // teardown: drop the futures, then the guard, monitors after every step
    let fp_end = run.fp;
    if !run.failed() {
        run.set_step(ops.len());
        for s in 0..k {
            if slots[s].alive() && !run.failed() {
                slots[s].drop_fut(run, "drop(lock future)");
                monitors!();
            }
        }
        if let Some(g) = guard.take() {
            run.call("drop(guard)", || drop(g));
            monitors!();
        }
        if tls::waker_overdrop() && !run.failed() {
            run.violate("C01", "waker-dropped-twice", "a waker was dropped more often than it was cloned".into());
        }
    }
    run.fp = fp_end;
    if run.failed() {
        for s in slots.iter_mut() {
            s.leak();
        }
        if let Some(g) = guard.take() {
            std::mem::forget(g);
        }
    }
}

#[allow(clippy::too_many_arguments)]
fn monitors<M: RawMutex>(
    mutex: &GenericMutex<M, u64>,
    fair: bool,
    slots: &[Slot<Fut<'_, M>>],
    guard: &Option<GenericMutexGuard<'_, M, u64>>,
    _counter: u64,
    snap: &mut Snapshot,
    order: &mut Vec<(u8, u8, u8, u8, u64)>,
    run: &mut Run,
) {
    // C02: is_locked() is true exactly while a guard is alive
    let locked = mutex.is_locked();
    if locked != guard.is_some() {
        run.violate("C02", "is_locked-mismatch", format!("is_locked() == {} while the harness holds {} guard(s)", locked, guard.is_some() as u8));
        if run.failed() {
            return;
        }
    }
    // C03: no lost wake-up
    if guard.is_none() {
        let pend: Vec<usize> = (0..slots.len()).filter(|&i| slots[i].pending()).collect();
        if !pend.is_empty() {
            if fair {
                let head = *pend.iter().min_by_key(|&&i| slots[i].arrival).unwrap();
                if !slots[head].woken() {
                    run.violate(
                        "C03",
                        "lost-wakeup-fair",
                        format!("mutex is free, slot {} is the longest-waiting pending future and has not been woken through its latest waker since its last poll", head),
                    );
                    if run.failed() {
                        return;
                    }
                }
            } else if !pend.iter().any(|&i| slots[i].woken()) {
                run.violate("C03", "lost-wakeup", format!("mutex is free, futures {:?} are pending and none has been woken since its last poll", pend));
                if run.failed() {
                    return;
                }
            }
        }
    }
    // C17: is_terminated is exact
    for (i, s) in slots.iter().enumerate() {
        if let Some(f) = s.fut.as_ref() {
            let t = f.is_terminated();
            if t {
                run.class(CL_TERMINATED_SEEN);
            }
            if t != s.done {
                run.violate("C17", "is_terminated-mismatch", format!("slot {}: is_terminated() == {} but completed == {}", i, t, s.done));
                if run.failed() {
                    return;
                }
            }
        }
    }
    // C01: wait queue == pending futures
    snap.clear();
    mutex.verif_snapshot(&mut |it| snap.push(it));
    let views: Views = slots
        .iter()
        .enumerate()
        .map(|(i, s)| SlotView { queue: 0, idx: i as u8, range: s.range(), pending: s.pending(), woken: s.woken() })
        .collect();
    check_list_queues(snap, &[0], &views, run, order, "C03");

    if run.want_fp {
        let mut h = H128::new();
        h.u8(guard.is_some() as u8);
        h.u8(snap.scalar("is_locked").unwrap_or(9) as u8);
        // arrival ranks among live slots
        let mut arr: Vec<u64> = slots.iter().filter(|s| s.alive() && s.arrival != 0).map(|s| s.arrival).collect();
        arr.sort_unstable();
        for s in slots {
            h.u8(s.alive() as u8);
            h.u8(s.polled as u8);
            h.u8(s.done as u8);
            h.u8(s.last_w);
            h.u8(s.woken() as u8);
            h.u8(if s.alive() && s.arrival != 0 { 1 + arr.iter().position(|a| *a == s.arrival).unwrap() as u8 } else { 0 });
        }
        for o in order.iter() {
            h.bytes(&[o.0, o.1, o.2, o.3]);
        }
        h.u8(0xff);
        run.fp = h.finish();
    }
}
