// included by mpmc.rs

pub(crate) struct Ctx<'a, M: RawMutex + 'static, A: RingBuf<Item = Tagged> + 'static> {
    chan: &'a Chan<M, A>,
    shared: bool,
    growing: bool,
    k: usize,
    send: Vec<Slot<SFut<'a, M>>>,
    recv: Vec<Slot<RFut<'a, M>>>,
    stream: Slot<Strm<'a, M, A>>,
    stream_items: u32,
    held: Vec<Tagged>,
    m: Model,
    snap: Snapshot,
    order: Vec<(u8, u8, u8, u8, u64)>,
    /// recv slots whose waker was swapped while registered
    swapped: Vec<bool>,
}

impl<'a, M: RawMutex + 'static, A: RingBuf<Item = Tagged> + 'static> Ctx<'a, M, A> {
    fn keep(&mut self, v: Tagged) {
        if self.held.len() >= 3 {
            let old = self.held.remove(0);
            drop(old);
        }
        self.held.push(v);
    }

    fn pending_receivers(&self) -> usize {
        self.recv.iter().filter(|s| s.pending()).count() + self.stream.pending() as usize
    }

    fn pending_total(&self) -> usize {
        self.pending_receivers() + self.send.iter().filter(|s| s.pending()).count()
    }

    fn unwoken_pending(&self) -> usize {
        self.recv.iter().filter(|s| s.pending() && !s.woken()).count()
            + self.send.iter().filter(|s| s.pending() && !s.woken()).count()
            + (self.stream.pending() && !self.stream.woken()) as usize
    }

    fn any_receiver_woken(&self) -> bool {
        self.recv.iter().any(|s| s.pending() && s.woken()) || (self.stream.pending() && self.stream.woken())
    }

    /// a value is available to receivers, computed from harness knowledge only (errs on the small side)
    fn available(&self) -> bool {
        self.m.vals.iter().any(|v| {
            if v.terminal() {
                return false;
            }
            if v.ok {
                return true;
            }
            !self.m.closed && v.effect && v.slot.is_some_and(|s| self.send[s].pending())
        })
    }

    fn owners(&self) -> usize {
        if !self.shared {
            return 1;
        }
        self.m.tx_count
            + self.m.rx_count
            + self.send.iter().filter(|s| s.alive() && !s.done && !s.cancelled).count()
            + self.recv.iter().filter(|s| s.alive() && !s.done).count()
    }

    /// `v` came out of the channel through a receive operation
    fn receive_event(&mut self, v: Tagged, what: String, run: &mut Run) {
        let id = v.id;
        match self.m.get(id).cloned() {
            None => {
                run.violate("C08", "unknown-value", format!("{} yielded v{} which was never sent", what, id));
                std::mem::forget(v);
                return;
            }
            Some(rec) => {
                if rec.received {
                    run.violate("C08", "delivered-twice", format!("{} yielded v{} which had already been received", what, id));
                } else if rec.returned {
                    run.violate("C08", "delivered-after-return", format!("{} yielded v{} which had been handed back to its sender", what, id));
                } else if rec.discarded {
                    run.violate("C08", "delivered-after-drop", format!("{} yielded v{} which had been dropped", what, id));
                } else if !rec.effect {
                    run.violate("C09", "received-before-send-effect", format!("{} yielded v{} whose send never took effect (its send future was not polled)", what, id));
                } else {
                    // FIFO: every value whose send took effect earlier is terminal
                    let pos = self.m.fifo.iter().position(|x| *x == id).unwrap();
                    for j in 0..pos {
                        let earlier = self.m.fifo[j];
                        if !self.m.get(earlier).unwrap().terminal() {
                            run.violate(
                                "C09",
                                "fifo-order",
                                format!("{} yielded v{} although the send of v{} took effect earlier and v{} has neither been received, handed back nor dropped", what, id, earlier, earlier),
                            );
                            break;
                        }
                    }
                }
            }
        }
        if self.m.closed {
            run.class(CL_RECEIVE_AFTER_CLOSE);
        }
        run.class(CL_DELIVERED);
        self.m.val(id).received = true;
        self.keep(v);
    }

    /// a receive operation reported "closed" (None / Closed)
    fn closed_report(&mut self, what: String, run: &mut Run) {
        if !self.m.closed {
            run.violate("C11", "closed-reported-while-open", format!("{} reported a closed channel although close() was not called and a handle of each side is alive", what));
        } else if self.m.ok_unreceived() > 0 {
            let ids: Vec<u16> = self.m.vals.iter().filter(|v| v.ok && !v.received && !v.discarded).map(|v| v.id).collect();
            run.violate2("C11", "C08", "accepted-value-lost-at-close", format!("{} reported a closed channel although the accepted values {:?} have not been received", what, ids));
        }
    }

    /// try_receive found nothing
    fn empty_report(&mut self, what: String, run: &mut Run) {
        if self.m.ok_unreceived() > 0 {
            let ids: Vec<u16> = self.m.vals.iter().filter(|v| v.ok && !v.received && !v.discarded).map(|v| v.id).collect();
            run.violate("C08", "accepted-value-unreachable", format!("{} found nothing although the accepted values {:?} have not been received", what, ids));
        }
    }

    /// the send of `id` returned Ok
    fn accepted(&mut self, id: u16, what: String, run: &mut Run) {
        if self.m.capacity == 0 && !self.m.get(id).unwrap().received {
            run.violate("C09", "rendezvous", format!("{} completed successfully on an unbuffered channel before a receiver took v{}", what, id));
        }
        self.m.val(id).ok = true;
        let n = self.m.ok_unreceived();
        if n > self.m.capacity {
            run.violate("C09", "capacity-exceeded", format!("{} accepted-but-unreceived values exist on a channel of capacity {}", n, self.m.capacity));
        }
    }

    /// model transition to closed (explicit or implicit)
    fn model_close(&mut self, pending_before: usize, unwoken_before: usize, run: &mut Run) {
        if self.m.closed {
            return;
        }
        self.m.closed = true;
        if pending_before >= 1 {
            run.class(CL_CLOSE_WITH_PENDING);
        }
        if unwoken_before >= 3 {
            run.class(CL_THREE_PENDING_WAKE_ALL);
        }
    }
}

fn run_m<M: RawMutex + 'static, A: RingBuf<Item = Tagged> + 'static>(cfg: &Cfg, ops: &[Op], run: &mut Run) {
    tls::reset_history();
    tls::set_shared_b(cfg.sw == 1);
    payload::reset();
    let shared = cfg.flavour >= FL_SHARED;
    let cap = cfg.x as usize;
    let chan_owner: Chan<M, A> = if shared {
        // the parking_lot + GrowingHeapBuf instantiation is what `channel()` and
        // `unbuffered_channel()` build: go through them where the types coincide
        let conv: Option<(Tx<M, A>, Rx<M, A>)> = if std::any::TypeId::of::<(M, A)>() == std::any::TypeId::of::<(PlLock, GrowingHeapBuf<Tagged>)>() {
            if cap == 0 {
                retype(sh::unbuffered_channel::<Tagged>())
            } else {
                retype(sh::channel::<Tagged>(cap))
            }
        } else {
            None
        };
        let (tx, rx) = match conv {
            Some(p) => p,
            None => sh::generic_channel::<M, Tagged, A>(cap),
        };
        Chan::S { tx: RefCell::new(vec![tx]), rx: RefCell::new(vec![rx]) }
    } else {
        // an ArrayBuf has its capacity in its type: the parking_lot flavour goes through `new()`
        if cfg.y == BUF_ARRAY && cfg.flavour == FL_SYNC {
            Chan::B(GenericChannel::new())
        } else {
            Chan::B(GenericChannel::with_capacity(cap))
        }
    };
    let k = cfg.k as usize;
    let mut c: Ctx<'_, M, A> = Ctx {
        chan: &chan_owner,
        shared,
        growing: cfg.y == BUF_GROWING,
        k,
        send: (0..k).map(|i| Slot::new(i as u8)).collect(),
        recv: (0..k).map(|i| Slot::new((k + i) as u8)).collect(),
        stream: Slot::new((2 * k) as u8),
        stream_items: 0,
        held: Vec::with_capacity(4),
        m: Model { vals: Vec::new(), fifo: Vec::new(), closed: false, newly_closed_seen: false, tx_count: 1, rx_count: 1, handle_ops: 0, capacity: cap, delivered_by_stream: 0 },
        snap: Snapshot::default(),
        order: Vec::new(),
        swapped: vec![false; k],
    };
    monitors(&mut c, run);
    for (i, op) in ops.iter().enumerate() {
        if run.failed() {
            break;
        }
        run.set_step(i);
        run.steps += 1;
        step(&mut c, op, run);
        if !run.failed() {
            monitors(&mut c, run);
        }
    }
    let fp_end = run.fp;
    if !run.failed() {
        run.set_step(ops.len());
        teardown(&mut c, run);
    }
    run.fp = fp_end;
    if run.failed() {
        for s in c.send.iter_mut() {
            s.leak();
        }
        for s in c.recv.iter_mut() {
            s.leak();
        }
        c.stream.leak();
        while let Some(v) = c.held.pop() {
            std::mem::forget(v);
        }
        drop(c);
        std::mem::forget(chan_owner);
        return;
    }
    drop(c);
    let ids = payload::ids();
    if let Err(msg) = lib_call(|| drop(chan_owner)) {
        run.violate("C01", "panic", format!("dropping the channel panicked: {}", msg));
        if run.failed() {
            return;
        }
    }
    for id in 0..ids as u16 {
        let d = payload::drops(id);
        if d != 1 {
            run.violate("C08", "drop-count", format!("value v{} was dropped {} times after the channel, all futures and all received values are gone (expected exactly once)", id, d));
            if run.failed() {
                return;
            }
        }
    }
}

fn teardown<M: RawMutex + 'static, A: RingBuf<Item = Tagged> + 'static>(c: &mut Ctx<'_, M, A>, run: &mut Run) {
    // futures first (they may outlive handles), monitors after every drop
    for s in 0..c.k {
        if c.send[s].alive() && !run.failed() {
            do_drop_send(c, s, run);
            if !run.failed() {
                monitors(c, run);
            }
        }
    }
    for s in 0..c.k {
        if c.recv[s].alive() && !run.failed() {
            c.recv[s].drop_fut(run, "drop(receive future)");
            if !run.failed() {
                monitors(c, run);
            }
        }
    }
    if c.stream.alive() && !run.failed() {
        do_drop_stream(c, run);
        if !run.failed() {
            monitors(c, run);
        }
    }
    if tls::waker_overdrop() && !run.failed() {
        run.violate("C01", "waker-dropped-twice", "a waker was dropped more often than it was cloned".into());
    }
    c.held.clear();
}

/// which ids may be dropped by the library during the current op
#[derive(Default)]
struct Allowed {
    ids: Vec<u16>,
    /// the last receiver goes away: everything that may sit in the buffer
    buffer: bool,
}

fn drops_snapshot(m: &Model) -> Vec<(u16, i32)> {
    m.vals.iter().filter(|v| !v.discarded || payload::drops(v.id) < 2).map(|v| (v.id, payload::drops(v.id))).collect()
}

fn check_drops<M: RawMutex + 'static, A: RingBuf<Item = Tagged> + 'static>(c: &mut Ctx<'_, M, A>, before: &[(u16, i32)], allowed: &Allowed, harness_dropped: &[u16], run: &mut Run) {
    check_drops2(c, before, allowed, harness_dropped, run, false)
}

fn check_drops2<M: RawMutex + 'static, A: RingBuf<Item = Tagged> + 'static>(c: &mut Ctx<'_, M, A>, before: &[(u16, i32)], allowed: &Allowed, harness_dropped: &[u16], run: &mut Run, closing: bool) {
    for (id, was) in before {
        let now = payload::drops(*id);
        if now > 1 {
            run.violate("C08", "dropped-twice", format!("value v{} has been dropped {} times", id, now));
            if run.failed() {
                return;
            }
        }
        if now > *was {
            if harness_dropped.contains(id) {
                continue;
            }
            let rec = c.m.get(*id).unwrap().clone();
            let in_buffer_possible = !rec.terminal() && rec.effect;
            if allowed.ids.contains(id) || (allowed.buffer && in_buffer_possible) {
                c.m.val(*id).discarded = true;
                c.m.val(*id).slot = None;
                run.class(CL_WITHDRAWN);
            } else {
                run.violate2(
                    "C08",
                    if closing { "C11" } else { "C08" },
                    "silently-dropped",
                    format!("value v{} was dropped by the channel during an operation that may not discard it (received={}, returned={}, accepted={})", id, rec.received, rec.returned, rec.ok),
                );
                if run.failed() {
                    return;
                }
            }
        }
    }
}

fn do_drop_send<M: RawMutex + 'static, A: RingBuf<Item = Tagged> + 'static>(c: &mut Ctx<'_, M, A>, s: usize, run: &mut Run) {
    let id = c.send[s].num as u16;
    let live_value = !c.send[s].done && !c.send[s].cancelled;
    let before = drops_snapshot(&c.m);
    c.send[s].drop_fut(run, "drop(send future)");
    if run.failed() {
        return;
    }
    let mut allowed = Allowed::default();
    if live_value {
        allowed.ids.push(id);
    }
    check_drops(c, &before, &allowed, &[], run);
    if live_value && !run.failed() {
        let rec = c.m.val(id);
        rec.slot = None;
        if !rec.terminal() && rec.effect && !rec.ok {
            // the value was already moved into the buffer: it stays in flight without a sender
            rec.orphan = true;
            run.class(CL_ORPHAN_IN_BUFFER);
        }
    }
}

fn do_drop_stream<M: RawMutex + 'static, A: RingBuf<Item = Tagged> + 'static>(c: &mut Ctx<'_, M, A>, run: &mut Run) {
    let pending_before = c.pending_total();
    let unwoken = c.unwoken_pending();
    let before = drops_snapshot(&c.m);
    let last_rx = c.shared && c.m.rx_count == 1;
    c.stream.drop_fut(run, "drop(stream)");
    if run.failed() {
        return;
    }
    if c.shared {
        c.m.rx_count -= 1;
        c.m.handle_ops += 1;
    }
    let allowed = Allowed { ids: vec![], buffer: last_rx };
    check_drops(c, &before, &allowed, &[], run);
    if last_rx && !run.failed() {
        last_receiver_gone(c, pending_before, unwoken, run);
    }
}

/// the last receiver handle of a shared channel was dropped: closed, buffered values discarded now
fn last_receiver_gone<M: RawMutex + 'static, A: RingBuf<Item = Tagged> + 'static>(c: &mut Ctx<'_, M, A>, pending_before: usize, unwoken: usize, run: &mut Run) {
    c.model_close(pending_before, unwoken, run);
    let stuck: Vec<u16> = c.m.vals.iter().filter(|v| v.ok && !v.received && !v.discarded).map(|v| v.id).collect();
    if !stuck.is_empty() {
        run.class(CL_LAST_RX_DROP_WITH_BUFFERED);
        run.violate("C11", "buffer-not-discarded", format!("the last receiver was dropped but the accepted values {:?} were not dropped immediately", stuck));
    }
}

fn step<M: RawMutex + 'static, A: RingBuf<Item = Tagged> + 'static>(c: &mut Ctx<'_, M, A>, op: &Op, run: &mut Run) {
    let op = &recycle(op, &c.send, &[OP_MK_SEND], OP_POLL_SEND, OP_DROP_SEND);
    let op = &recycle(op, &c.recv, &[OP_MK_RECV], OP_POLL_RECV, OP_DROP_RECV);
    tls::clear_op_log();
    tls::alloc_reset();
    // What a panic inside this op contradicts besides C01: on a closed channel every operation has
    // a prescribed result (C11); on an open one the ring buffer's own `can_push` assertion is the
    // debug-build face of exceeding the capacity (C09).
    run.panic_also = if c.m.closed { Some(("C11", "")) } else { Some(("C09", "can_push")) };
    let owners_before = c.owners();
    let pending_before = c.pending_total();
    let unwoken_before = c.unwoken_pending();
    let avail_before = c.available();
    let recv_pending_before = c.pending_receivers();
    let before = drops_snapshot(&c.m);
    let mut allowed = Allowed::default();
    let mut harness_dropped: Vec<u16> = Vec::new();
    let mut may_grow = false;
    let chan = c.chan;
    match op.code {
        OP_MK_SEND => {
            let has_tx = match chan {
                Chan::S { tx, .. } => !tx.borrow().is_empty(),
                _ => true,
            };
            match (has_tx, next_where(&c.send, op.a, |s| !s.alive()), Tagged::fresh()) {
                (true, Some(s), Some(val)) => {
                    let id = val.id;
                    let f = run.call("send()", || match chan {
                        Chan::B(ch) => SFut::B(ch.send(val)),
                        Chan::S { tx, .. } => SFut::S(tx.borrow().last().unwrap().send(val)),
                    });
                    if let Some(f) = f {
                        c.send[s].install(f);
                        c.send[s].num = id as u64;
                        c.m.vals.push(Val { id, slot: Some(s), effect: false, ok: false, received: false, returned: false, discarded: false, orphan: false });
                        run.note(|| format!("create send(v{}) in send slot {}", id, s));
                    }
                }
                _ => run.noops += 1,
            }
        }
        OP_POLL_SEND => match next_where(&c.send, op.a, |s| s.pollable()) {
            Some(s) => {
                let id = c.send[s].num as u16;
                let first = !c.send[s].polled;
                let was_received = c.m.get(id).unwrap().received;
                let model_closed = c.m.closed;
                may_grow = true;
                if first && !model_closed {
                    c.m.val(id).effect = true;
                    c.m.fifo.push(id);
                }
                let r = c.send[s].poll(op.b, run);
                match r {
                    Some(Poll::Ready(Ok(()))) => {
                        run.note(|| format!("poll send slot {} (v{}) waker {} -> Ready(Ok)", s, id, op.b));
                        if model_closed && first {
                            run.violate("C11", "send-after-close-accepted", format!("send(v{}) first polled on a closed channel completed with Ok", id));
                        }
                        if !first && was_received {
                            run.class(CL_SENDER_WOKEN_BY_RECEIVE);
                        }
                        c.accepted(id, format!("send future in slot {}", s), run);
                        c.m.val(id).slot = None;
                    }
                    Some(Poll::Ready(Err(back))) => {
                        run.note(|| format!("poll send slot {} (v{}) waker {} -> Ready(Err(v{}))", s, id, op.b, back.id));
                        if back.id != id {
                            run.violate2("C11", "C08", "wrong-value-returned", format!("send(v{}) failed and returned v{}", id, back.id));
                        }
                        if !model_closed {
                            run.violate("C11", "closed-reported-while-open", format!("send(v{}) failed although close() was not called and a handle of each side is alive", id));
                        }
                        let rec = c.m.val(id);
                        if rec.received || rec.returned {
                            run.violate("C08", "returned-twice-or-after-delivery", format!("send(v{}) handed the value back although it was already {}", id, if rec.received { "received" } else { "returned" }));
                        }
                        rec.returned = true;
                        rec.slot = None;
                        run.class(CL_WITHDRAWN);
                        run.class(CL_RETURNED_BY_CLOSE);
                        c.keep(back);
                    }
                    Some(Poll::Pending) => {
                        run.note(|| format!("poll send slot {} (v{}) waker {} -> Pending", s, id, op.b));
                        if model_closed {
                            run.violate("C11", "pending-on-closed-channel", format!("send future in slot {} (v{}) returned Pending on a closed channel", s, id));
                        }
                        if !first {
                            run.class(CL_REPOLL_PENDING);
                            if c.shared {
                                run.class(CL_SHARED_REPOLL);
                            }
                        }
                    }
                    None => {}
                }
            }
            None => run.noops += 1,
        },
        OP_DROP_SEND => match next_where(&c.send, op.a, |s| s.alive()) {
            Some(s) => {
                if c.send[s].pending() {
                    if pending_before >= 2 {
                        run.class(CL_DROP_PENDING_WITH_OTHERS);
                    }
                    if c.send[s].woken() {
                        run.class(CL_DROP_WOKEN);
                    }
                }
                run.note(|| format!("drop send slot {} (v{})", s, c.send[s].num));
                do_drop_send(c, s, run);
                return finish_step(c, op, run, owners_before, false, avail_before, recv_pending_before);
            }
            None => run.noops += 1,
        },
        OP_CANCEL_SEND => match next_where(&c.send, op.a, |s| s.pollable()) {
            Some(s) => {
                let id = c.send[s].num as u16;
                let parked = c.send[s].pending();
                if parked {
                    // middle of the wait order?
                    let pos = c.m.fifo.iter().position(|x| *x == id);
                    let parked_ids: Vec<u16> = c.send.iter().filter(|x| x.pending()).map(|x| x.num as u16).collect();
                    if let Some(p) = pos {
                        let older = parked_ids.iter().any(|o| c.m.fifo.iter().position(|x| x == o).is_some_and(|q| q < p));
                        let newer = parked_ids.iter().any(|o| c.m.fifo.iter().position(|x| x == o).is_some_and(|q| q > p));
                        if older && newer {
                            run.class(CL_CANCEL_MIDDLE);
                        }
                    }
                }
                let fut = c.send[s].fut.as_mut().unwrap();
                let r = run.call("cancel()", || fut.as_mut().cancel());
                if let Some(r) = r {
                    run.note(|| format!("cancel send slot {} (v{}) -> {}", s, id, r.as_ref().map(|t| format!("Some(v{})", t.id)).unwrap_or("None".into())));
                    c.send[s].cancelled = true;
                    match r {
                        Some(back) => {
                            if back.id != id {
                                run.violate("C08", "wrong-value-returned", format!("cancel() of send(v{}) returned v{}", id, back.id));
                            }
                            let rec = c.m.val(id);
                            if rec.received || rec.returned {
                                run.violate("C08", "returned-twice-or-after-delivery", format!("cancel() handed v{} back although it was already {}", id, if rec.received { "received" } else { "returned" }));
                            }
                            rec.returned = true;
                            rec.slot = None;
                            run.class(CL_WITHDRAWN);
                            c.keep(back);
                        }
                        None => {
                            let rec = c.m.val(id);
                            rec.slot = None;
                            if !rec.effect {
                                run.violate("C08", "value-lost-by-cancel", format!("cancel() of the never polled send(v{}) returned None", id));
                            } else if !rec.terminal() && !rec.ok {
                                rec.orphan = true;
                                run.class(CL_ORPHAN_IN_BUFFER);
                            }
                        }
                    }
                }
            }
            None => run.noops += 1,
        },
        OP_MK_RECV => {
            let slot = next_where(&c.recv, op.a, |s| !s.alive());
            match slot {
                Some(s) => {
                    let f = run.call("receive()", || match chan {
                        Chan::B(ch) => Some(RFut::B(ch.receive())),
                        Chan::S { rx, .. } => rx.borrow().last().map(|r| RFut::S(r.receive())),
                    });
                    match f {
                        Some(Some(f)) => {
                            c.recv[s].install(f);
                            c.swapped[s] = false;
                            run.note(|| format!("create receive future in recv slot {}", s));
                        }
                        _ => run.noops += 1,
                    }
                }
                None => run.noops += 1,
            }
        }
        OP_POLL_RECV => match next_where(&c.recv, op.a, |s| s.pollable()) {
            Some(s) => {
                let first = !c.recv[s].polled;
                let was_woken = c.recv[s].woken();
                let prev_w = c.recv[s].last_w;
                may_grow = true;
                if c.send.iter().any(|x| x.pending()) && c.m.vals.iter().filter(|v| v.effect && !v.terminal()).count() >= 2 {
                    run.class(CL_TWO_IN_FLIGHT_PARKED_RECV);
                }
                if c.capacity_refill_possible() {
                    run.class(CL_REFILL);
                }
                match c.recv[s].poll(op.b, run) {
                    Some(Poll::Ready(Some(v))) => {
                        run.note(|| format!("poll recv slot {} waker {} -> Ready(v{})", s, op.b, v.id));
                        if was_woken && c.swapped[s] {
                            run.class(CL_WAKER_SWAP_RECV);
                        }
                        c.receive_event(v, format!("receive future in slot {}", s), run);
                    }
                    Some(Poll::Ready(None)) => {
                        run.note(|| format!("poll recv slot {} waker {} -> Ready(None)", s, op.b));
                        c.closed_report(format!("receive future in slot {}", s), run);
                    }
                    Some(Poll::Pending) => {
                        run.note(|| format!("poll recv slot {} waker {} -> Pending", s, op.b));
                        if c.m.closed {
                            run.violate("C11", "pending-on-closed-channel", format!("receive future in slot {} returned Pending on a closed channel", s));
                        }
                        if first || was_woken {
                            // a woken receiver waits anew
                            c.recv[s].arrival = c.recv[s].poll_seq;
                        }
                        if !first {
                            run.class(CL_REPOLL_PENDING);
                            if c.shared {
                                run.class(CL_SHARED_REPOLL);
                            }
                            if prev_w != op.b {
                                c.swapped[s] = true;
                            }
                        }
                    }
                    None => {}
                }
            }
            None => run.noops += 1,
        },
        OP_DROP_RECV => match next_where(&c.recv, op.a, |s| s.alive()) {
            Some(s) => {
                if c.recv[s].pending() {
                    if pending_before >= 2 {
                        run.class(CL_DROP_PENDING_WITH_OTHERS);
                    }
                    if c.recv[s].woken() {
                        run.class(CL_DROP_WOKEN);
                        if recv_pending_before >= 2 {
                            run.class(CL_DROP_WOKEN_RECV);
                        }
                    }
                }
                c.recv[s].drop_fut(run, "drop(receive future)");
                run.note(|| format!("drop recv slot {}", s));
            }
            None => run.noops += 1,
        },
        OP_TRY_SEND => {
            let has_tx = match chan {
                Chan::S { tx, .. } => !tx.borrow().is_empty(),
                _ => true,
            };
            // contract: try_send is not supported on unbuffered channels
            match (has_tx && c.m.capacity > 0, Tagged::fresh()) {
                (true, Some(val)) => {
                    let id = val.id;
                    may_grow = true;
                    let r = run.call("try_send()", || match chan {
                        Chan::B(ch) => ch.try_send(val),
                        Chan::S { tx, .. } => tx.borrow().last().unwrap().try_send(val),
                    });
                    if let Some(r) = r {
                        c.m.vals.push(Val { id, slot: None, effect: false, ok: false, received: false, returned: false, discarded: false, orphan: false });
                        match r {
                            Ok(()) => {
                                run.note(|| format!("try_send(v{}) -> Ok", id));
                                if c.m.closed {
                                    run.violate("C11", "send-after-close-accepted", format!("try_send(v{}) succeeded on a closed channel", id));
                                }
                                c.m.val(id).effect = true;
                                c.m.fifo.push(id);
                                c.accepted(id, "try_send".to_string(), run);
                            }
                            Err(e) => {
                                let full = matches!(e, TrySendError::Full(_));
                                if e.is_full() != full || e.is_closed() == full {
                                    run.violate("C11", "error-accessor", format!("{:?}: is_full() == {} and is_closed() == {}", e, e.is_full(), e.is_closed()));
                                }
                                let back = e.into_inner();
                                run.note(|| format!("try_send(v{}) -> {}(v{})", id, if full { "Full" } else { "Closed" }, back.id));
                                if back.id != id {
                                    run.violate2("C11", "C08", "wrong-value-returned", format!("try_send(v{}) failed and returned v{}", id, back.id));
                                }
                                if !full && !c.m.closed {
                                    run.violate("C11", "closed-reported-while-open", format!("try_send(v{}) reported Closed although the channel is open", id));
                                }
                                c.m.val(id).returned = true;
                                c.keep(back);
                            }
                        }
                    }
                }
                _ => run.noops += 1,
            }
        }
        OP_TRY_RECV => {
            may_grow = true;
            let notified_exists = c.any_receiver_woken();
            let r = run.call("try_receive()", || match chan {
                Chan::B(ch) => Some(ch.try_receive()),
                Chan::S { rx, .. } => rx.borrow().last().map(|r| r.try_receive()),
            });
            match r {
                Some(Some(res)) => match res {
                    Err(e) if e.is_empty() != (e == TryReceiveError::Empty) || e.is_closed() != (e == TryReceiveError::Closed) => {
                        run.violate("C11", "error-accessor", format!("{:?}: is_empty() == {} and is_closed() == {}", e, e.is_empty(), e.is_closed()));
                    }
                    Ok(v) => {
                        run.note(|| format!("try_receive() -> Ok(v{})", v.id));
                        if notified_exists {
                            run.class(CL_STEAL_FROM_NOTIFIED);
                        }
                        c.receive_event(v, "try_receive".to_string(), run);
                    }
                    Err(TryReceiveError::Empty) => {
                        run.note(|| "try_receive() -> Empty".to_string());
                        if c.m.closed {
                            run.violate("C11", "empty-on-closed-channel", "try_receive() reported Empty on a closed channel (must report Closed once drained)".into());
                        }
                        c.empty_report("try_receive".to_string(), run);
                    }
                    Err(TryReceiveError::Closed) => {
                        run.note(|| "try_receive() -> Closed".to_string());
                        c.closed_report("try_receive".to_string(), run);
                    }
                },
                _ => run.noops += 1,
            }
        }
        OP_CLOSE => {
            // side: 0 = channel / sender handle, 1 = receiver handle, 2 = stream
            let r = run.call("close()", || match chan {
                Chan::B(ch) => Some(ch.close()),
                Chan::S { tx, rx } => match op.a {
                    0 => tx.borrow().last().map(|t| t.close()),
                    1 => rx.borrow().last().map(|r| r.close()),
                    _ => c.stream.fut.as_ref().and_then(|s| s.close()),
                },
            });
            match r {
                Some(Some(status)) => {
                    run.note(|| format!("close() -> {:?}", status));
                    let newly = status == CloseStatus::NewlyClosed;
                    if status.is_newly_closed() != newly || status.is_already_closed() == newly {
                        run.violate("C11", "status-accessor", format!("{:?}: is_newly_closed() == {} and is_already_closed() == {}", status, status.is_newly_closed(), status.is_already_closed()));
                    }
                    if newly == c.m.closed {
                        run.violate("C11", "close-status", format!("close() returned {:?} on a channel that was {}", status, if c.m.closed { "already closed" } else { "open" }));
                    }
                    if newly && c.m.newly_closed_seen {
                        run.violate("C11", "close-status", "close() returned NewlyClosed twice".into());
                    }
                    c.m.newly_closed_seen |= newly;
                    c.model_close(pending_before, unwoken_before, run);
                }
                _ => run.noops += 1,
            }
        }
        OP_MK_STREAM => {
            if c.stream.alive() {
                run.noops += 1;
            } else {
                let s = match chan {
                    Chan::B(ch) => run.call("stream()", || Some(Strm::B(ch.stream()))).flatten(),
                    Chan::S { rx, .. } => {
                        let n = rx.borrow().len();
                        if n == 0 {
                            None
                        } else {
                            let h = rx.borrow_mut().remove(op.a as usize % n);
                            run.call("into_stream()", || Some(Strm::S(h.into_stream()))).flatten()
                        }
                    }
                };
                match s {
                    Some(s) => {
                        c.stream.install(s);
                        c.stream_items = 0;
                        run.note(|| "create stream".to_string());
                    }
                    None => run.noops += 1,
                }
            }
        }
        OP_POLL_STREAM => {
            if !c.stream.alive() {
                run.noops += 1;
            } else if c.stream.done {
                // `is_terminated()` tells callers not to poll again, so this is a probe like the
                // poll-after-completion probe of futures: None again or a panic are both fine,
                // another item is not ("streams end once")
                if !run.allow_probe {
                    run.noops += 1;
                } else {
                    let wid = c.stream.waker_id_for(op.a);
                    let waker = make_waker(wid);
                    let mut cx = Context::from_waker(&waker);
                    let fut = c.stream.fut.as_mut().unwrap();
                    let r = lib_call(|| fut.as_mut().poll(&mut cx));
                    tls::alloc_reset();
                    run.note(|| "poll stream after its end".to_string());
                    match r {
                        Ok(Poll::Ready(Some(v))) => {
                            run.violate("C17", "stream-item-after-end", format!("the stream yielded v{} after it had returned None", v.id));
                            std::mem::forget(v);
                        }
                        Ok(_) => {}
                        Err(_) => {
                            // a stream that panicked is never touched again
                            c.stream.leak();
                            c.stream.clear();
                            if c.shared {
                                c.m.rx_count -= 1;
                            }
                        }
                    }
                }
            } else {
                let first = !c.stream.polled;
                let was_woken = c.stream.woken();
                may_grow = true;
                match c.stream.poll(op.a, run) {
                    Some(Poll::Ready(Some(v))) => {
                        run.note(|| format!("poll stream waker {} -> Ready(v{})", op.a, v.id));
                        c.stream.done = false;
                        c.stream.polled = false;
                        c.stream.arrival = 0;
                        c.stream_items += 1;
                        c.m.delivered_by_stream += 1;
                        c.receive_event(v, "stream".to_string(), run);
                    }
                    Some(Poll::Ready(None)) => {
                        run.note(|| format!("poll stream waker {} -> Ready(None)", op.a));
                        if !c.m.closed {
                            run.violate2("C17", "C11", "stream-ended-while-open", "the stream returned None although the channel is open".into());
                        } else if c.m.ok_unreceived() > 0 {
                            run.violate2("C17", "C11", "stream-ended-before-drained", "the stream returned None although accepted values have not been received".into());
                        }
                        if c.stream_items >= 2 {
                            run.class(CL_STREAM_TWO_ITEMS_END);
                        }
                    }
                    Some(Poll::Pending) => {
                        run.note(|| format!("poll stream waker {} -> Pending", op.a));
                        if c.m.closed {
                            run.violate2("C17", "C11", "stream-pending-on-closed-channel", "the stream returned Pending on a closed channel".into());
                        }
                        if first || was_woken {
                            c.stream.arrival = c.stream.poll_seq;
                        }
                        if !first {
                            run.class(CL_REPOLL_PENDING);
                        }
                    }
                    None => {}
                }
            }
        }
        OP_DROP_STREAM => {
            if c.stream.alive() {
                if c.stream.pending() && c.stream.woken() {
                    run.class(CL_DROP_WOKEN);
                    if recv_pending_before >= 2 {
                        run.class(CL_DROP_WOKEN_RECV);
                    }
                }
                run.note(|| "drop stream".to_string());
                // drop accounting is done inside (it may be the last receiver)
                do_drop_stream(c, run);
                return finish_step(c, op, run, owners_before, false, avail_before, recv_pending_before);
            } else {
                run.noops += 1;
            }
        }
        OP_CLONE_TX | OP_CLONE_RX => match chan {
            Chan::S { tx, rx } => {
                let is_tx = op.code == OP_CLONE_TX;
                let n = if is_tx { tx.borrow().len() } else { rx.borrow().len() };
                if n == 0 || n >= 3 {
                    run.noops += 1;
                } else if is_tx {
                    let cl = {
                        let v = tx.borrow();
                        let h = &v[op.a as usize % n];
                        run.call("clone(sender)", || h.clone())
                    };
                    if let Some(cl) = cl {
                        tx.borrow_mut().push(cl);
                        c.m.tx_count += 1;
                        c.m.handle_ops += 1;
                        run.note(|| "clone sender handle".to_string());
                    }
                } else {
                    let cl = {
                        let v = rx.borrow();
                        let h = &v[op.a as usize % n];
                        run.call("clone(receiver)", || h.clone())
                    };
                    if let Some(cl) = cl {
                        rx.borrow_mut().push(cl);
                        c.m.rx_count += 1;
                        c.m.handle_ops += 1;
                        run.note(|| "clone receiver handle".to_string());
                    }
                }
            }
            _ => run.noops += 1,
        },
        OP_DROP_TX => match chan {
            Chan::S { tx, .. } if !tx.borrow().is_empty() => {
                let idx = op.a as usize % tx.borrow().len();
                let h = tx.borrow_mut().remove(idx);
                if c.m.handle_ops >= 2 && c.m.tx_count == 1 {
                    run.class(CL_HANDLE_OPS_TWO);
                }
                run.call("drop(sender)", || drop(h));
                c.m.tx_count -= 1;
                c.m.handle_ops += 1;
                if c.send.iter().any(|s| s.alive() && !s.done && !s.cancelled) {
                    run.class(CL_FUTURE_OUTLIVES_HANDLE);
                }
                if c.m.tx_count == 0 {
                    c.model_close(pending_before, unwoken_before, run);
                }
                run.note(|| format!("drop sender handle ({} left)", c.m.tx_count));
            }
            _ => run.noops += 1,
        },
        OP_DROP_RX => match chan {
            Chan::S { rx, .. } if !rx.borrow().is_empty() => {
                let idx = op.a as usize % rx.borrow().len();
                let h = rx.borrow_mut().remove(idx);
                let last = c.m.rx_count == 1;
                if c.m.handle_ops >= 2 && last {
                    run.class(CL_HANDLE_OPS_TWO);
                }
                allowed.buffer = last;
                run.call("drop(receiver)", || drop(h));
                c.m.rx_count -= 1;
                c.m.handle_ops += 1;
                if c.recv.iter().any(|s| s.alive() && !s.done) {
                    run.class(CL_FUTURE_OUTLIVES_HANDLE);
                }
                run.note(|| format!("drop receiver handle ({} left)", c.m.rx_count));
                if last && !run.failed() {
                    check_drops(c, &before, &allowed, &harness_dropped, run);
                    if !run.failed() {
                        last_receiver_gone(c, pending_before, unwoken_before, run);
                    }
                    return finish_step(c, op, run, owners_before, false, avail_before, recv_pending_before);
                }
            }
            _ => run.noops += 1,
        },
        OP_DROP_HELD => {
            if c.held.is_empty() {
                run.noops += 1;
            } else {
                let idx = op.a as usize % c.held.len();
                let v = c.held.remove(idx);
                harness_dropped.push(v.id);
                run.note(|| format!("drop held value v{}", v.id));
                drop(v);
            }
        }
        _ => {
            if !run.allow_probe {
                run.noops += 1;
            } else if op.b == 0 {
                match next_where(&c.send, op.a, |s| s.alive() && (s.done || s.cancelled)) {
                    Some(s) => {
                        run.class(CL_PROBE);
                        c.send[s].done = true;
                        c.send[s].probe_after_done(run, "mpmc send future");
                        run.note(|| format!("probe send slot {} after completion", s));
                    }
                    None => run.noops += 1,
                }
            } else {
                match next_where(&c.recv, op.a, |s| s.alive() && s.done) {
                    Some(s) => {
                        run.class(CL_PROBE);
                        c.recv[s].probe_after_done(run, "mpmc receive future");
                        run.note(|| format!("probe recv slot {} after completion", s));
                    }
                    None => run.noops += 1,
                }
            }
        }
    }
    // the keep() helper may have dropped an old held value
    if !run.failed() {
        for (id, was) in &before {
            if payload::drops(*id) > *was && c.m.get(*id).is_some_and(|v| v.received || v.returned) && !harness_dropped.contains(id) {
                harness_dropped.push(*id);
            }
        }
        check_drops2(c, &before, &allowed, &harness_dropped, run, op.code == OP_CLOSE);
    }
    finish_step(c, op, run, owners_before, may_grow, avail_before, recv_pending_before)
}

fn finish_step<M: RawMutex + 'static, A: RingBuf<Item = Tagged> + 'static>(c: &mut Ctx<'_, M, A>, op: &Op, run: &mut Run, owners_before: usize, may_grow: bool, avail_before: bool, recv_pending_before: usize) {
    if run.failed() {
        return;
    }
    // C18
    let (a, d) = tls::alloc_counts();
    let owners_after = c.owners();
    let may_free = c.shared && owners_before > 0 && owners_after == 0;
    let growth_ok = c.growing && may_grow;
    let bad = if growth_ok { false } else { a != 0 || (d != 0 && !may_free) || d > 2 };
    if bad {
        run.violate("C18", "allocation", format!("op {:?} performed {} allocations and {} deallocations (last owner released: {}, growing buffer push possible: {})", op, a, d, may_free, growth_ok));
        if run.failed() {
            return;
        }
    }
    if !avail_before && recv_pending_before >= 1 && c.available() {
        run.class(CL_AVAILABLE_WHILE_RECV_PENDING);
    }
    if tls::op_log_len() >= 3 {
        run.class(CL_THREE_PENDING_WAKE_ALL);
    }
}

impl<'a, M: RawMutex + 'static, A: RingBuf<Item = Tagged> + 'static> Ctx<'a, M, A> {
    /// a receive now would pop from the buffer while a sender is parked (refill path)
    fn capacity_refill_possible(&self) -> bool {
        self.m.capacity > 0 && self.send.iter().any(|s| s.pending()) && self.m.ok_unreceived() > 0
    }
}

fn monitors<M: RawMutex + 'static, A: RingBuf<Item = Tagged> + 'static>(c: &mut Ctx<'_, M, A>, run: &mut Run) {
    // C10 (A): a value is available and receivers are pending => some pending receiver is woken
    if c.pending_receivers() > 0 && c.available() && !c.any_receiver_woken() {
        run.violate(
            "C10",
            "receiver-not-woken",
            format!(
                "a value is available (accepted or parked in a waiting sender), receive futures {:?}{} are pending and none of them has been woken through its latest waker since its last poll",
                (0..c.k).filter(|&i| c.recv[i].pending()).collect::<Vec<_>>(),
                if c.stream.pending() { " and the stream" } else { "" }
            ),
        );
        if run.failed() {
            return;
        }
    }
    // C10 (B): a pending sender whose value has been received is woken
    for s in 0..c.k {
        if c.send[s].pending() && !c.send[s].woken() {
            let id = c.send[s].num as u16;
            if c.m.get(id).is_some_and(|v| v.received) {
                run.violate("C10", "sender-not-woken", format!("the value v{} of the pending send future in slot {} has been received but the sender has not been woken", id, s));
                if run.failed() {
                    return;
                }
            }
        }
    }
    // C10 (C) / C11: after close every pending future is woken
    if c.m.closed {
        let mut bad: Option<String> = None;
        for s in 0..c.k {
            if c.send[s].pending() && !c.send[s].woken() {
                bad = Some(format!("send slot {}", s));
            }
            if c.recv[s].pending() && !c.recv[s].woken() {
                bad = Some(format!("recv slot {}", s));
            }
        }
        if c.stream.pending() && !c.stream.woken() {
            bad = Some("the stream".into());
        }
        if let Some(b) = bad {
            run.violate2("C10", "C11", "not-woken-after-close", format!("{} is pending on a closed channel and has not been woken through its latest waker", b));
            if run.failed() {
                return;
            }
        }
    }
    // C17
    for s in 0..c.k {
        if let Some(f) = c.send[s].fut.as_ref() {
            let t = f.terminated();
            if t {
                run.class(CL_TERMINATED_SEEN);
            }
            if t != (c.send[s].done || c.send[s].cancelled) {
                run.violate("C17", "is_terminated-mismatch", format!("send slot {}: is_terminated() == {} but completed/cancelled == {}", s, t, c.send[s].done || c.send[s].cancelled));
                if run.failed() {
                    return;
                }
            }
        }
        if let Some(f) = c.recv[s].fut.as_ref() {
            let t = f.terminated();
            if t {
                run.class(CL_TERMINATED_SEEN);
            }
            if t != c.recv[s].done {
                run.violate("C17", "is_terminated-mismatch", format!("recv slot {}: is_terminated() == {} but completed == {}", s, t, c.recv[s].done));
                if run.failed() {
                    return;
                }
            }
        }
    }
    if let Some(st) = c.stream.fut.as_ref() {
        let t = st.terminated();
        if t != c.stream.done {
            run.violate("C17", "stream-is_terminated-mismatch", format!("stream: is_terminated() == {} but it has {} returned None", t, if c.stream.done { "already" } else { "not yet" }));
            if run.failed() {
                return;
            }
        }
    }
    // C01
    c.snap.clear();
    let mut have = true;
    match c.chan {
        Chan::B(ch) => ch.verif_snapshot(&mut |it| c.snap.push(it)),
        Chan::S { tx, rx } => {
            if let Some(t) = tx.borrow().first() {
                t.verif_snapshot(&mut |it| c.snap.push(it))
            } else if let Some(r) = rx.borrow().first() {
                r.verif_snapshot(&mut |it| c.snap.push(it))
            } else if let Some(Strm::S(s)) = c.stream.fut.as_deref() {
                s.verif_snapshot(&mut |it| c.snap.push(it))
            } else {
                have = false
            }
        }
    }
    c.order.clear();
    if have {
        let mut views = Views::new();
        for (i, s) in c.recv.iter().enumerate() {
            views.push(SlotView { queue: 0, idx: i as u8, range: s.range(), pending: s.pending(), woken: s.woken() });
        }
        views.push(SlotView { queue: 0, idx: c.k as u8, range: c.stream.range(), pending: c.stream.pending(), woken: c.stream.woken() });
        for (i, s) in c.send.iter().enumerate() {
            views.push(SlotView { queue: 1, idx: i as u8, range: s.range(), pending: s.pending(), woken: s.woken() });
        }
        let mut order = std::mem::take(&mut c.order);
        check_list_queues(&c.snap, &[0, 1], &views, run, &mut order, "C10");
        c.order = order;
        // C09 (implementation visible part): the buffer never holds more than its capacity
        if let (Some(len), false) = (c.snap.scalar("buffer_len"), run.failed()) {
            if len as usize > c.m.capacity {
                run.violate("C09", "capacity-exceeded", format!("the buffer holds {} values but the capacity is {}", len, c.m.capacity));
            }
        }
    }
    if run.want_fp {
        let mut h = H128::new();
        h.bytes(&[c.m.closed as u8, c.m.tx_count as u8, c.m.rx_count as u8, have as u8, c.held.len() as u8]);
        h.u64(c.snap.scalar("buffer_len").unwrap_or(99));
        // in-flight values by fifo rank
        let live: Vec<&Val> = c.m.fifo.iter().filter_map(|id| c.m.get(*id)).filter(|v| !v.terminal()).collect();
        for v in &live {
            h.bytes(&[v.ok as u8, v.orphan as u8, v.slot.map(|s| s as u8 + 1).unwrap_or(0)]);
        }
        h.u8(0xfc);
        for s in c.send.iter() {
            let id = s.num as u16;
            let rank = live.iter().position(|v| v.id == id).map(|r| r as u8 + 1).unwrap_or(0);
            let rec_received = s.alive() && c.m.get(id).is_some_and(|v| v.received);
            h.bytes(&[s.alive() as u8, s.polled as u8, s.done as u8, s.cancelled as u8, s.last_w, s.woken() as u8, rank, rec_received as u8]);
        }
        let mut arr: Vec<u64> = c.recv.iter().filter(|s| s.pending()).map(|s| s.arrival).collect();
        arr.sort_unstable();
        for s in c.recv.iter() {
            h.bytes(&[s.alive() as u8, s.polled as u8, s.done as u8, s.last_w, s.woken() as u8, if s.pending() { 1 + arr.iter().position(|a| *a == s.arrival).unwrap() as u8 } else { 0 }]);
        }
        let s = &c.stream;
        h.bytes(&[s.alive() as u8, s.polled as u8, s.done as u8, s.last_w, s.woken() as u8]);
        for o in c.order.iter() {
            h.bytes(&[o.0, o.1, o.2, o.3, o.4 as u8]);
        }
        run.fp = h.finish();
    }
}
