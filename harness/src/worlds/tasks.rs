//! Driver T: generated task programs under a generated schedule, expressed as worlds so that the
//! random driver (with shrinking), the enumerator, replay and fuzzing apply unchanged.
//!
//! A history consists of two kinds of ops: `step(task, kind)` ops define the scripts (collected
//! in a first pass, in order of appearance), all other ops are scheduler decisions, executed in
//! order: `run(task)` polls the next runnable task at or after `task`, `timeout(task)` fires the
//! timeout of the next task that is currently inside an "or give up" wait. A task is runnable
//! only if its own waker fired since its last poll (the real waker protocol). When the schedule
//! is exhausted the executor continues round-robin until quiescence. Programs cannot deadlock
//! under a correct implementation (scripts hold one resource at a time and always release it; the
//! environment closes channels / sets the event at quiescence), so "no task runnable and a
//! task unfinished" is a state, not a timeout, and is a violation (lost wake-up).

use crate::common::lock::{CheckedLock, Noop, PlLock};
use crate::common::payload::{self, Tagged};
use crate::common::*;
use futures_intrusive::buffer::{ArrayBuf, GrowingHeapBuf, RingBuf};
use futures_intrusive::channel::GenericChannel;
use futures_intrusive::sync::{GenericManualResetEvent, GenericMutex, GenericSemaphore};
use lock_api::RawMutex;
use std::cell::{Cell, RefCell};
use std::future::Future;
use std::pin::Pin;
use std::task::{Context, Poll};

pub struct TaskMutexWorld;
pub struct TaskSemaphoreWorld;
pub struct TaskMpmcWorld;
pub struct TaskEventWorld;

pub const OP_STEP: u8 = 0;
pub const OP_RUN: u8 = 1;
pub const OP_TIMEOUT: u8 = 2;

pub const CL_CONTENDED: u32 = 0;
pub const CL_GAVE_UP: u32 = 1;
pub const CL_ALL_FINISHED: u32 = 2;
pub const CL_THREE_TASKS_ACTIVE: u32 = 3;
pub const CL_TIMEOUT_WHILE_WOKEN: u32 = 4;
pub const CL_CLOSED_BY_ENV: u32 = 5;
pub const CL_DELIVERED_TWO: u32 = 6;

const CLASS_NAMES: &[&str] = &["a-task-had-to-wait", "a-task-gave-up-waiting", "all-tasks-finished", "three-tasks-with-scripts", "timeout-hit-a-woken-task", "environment-closed/set", "two-values-delivered"];

/// yields once: wakes itself and returns Pending
struct YieldNow(bool);
impl Future for YieldNow {
    type Output = ();
    fn poll(mut self: Pin<&mut Self>, cx: &mut Context<'_>) -> Poll<()> {
        if self.0 {
            Poll::Ready(())
        } else {
            self.0 = true;
            cx.waker().wake_by_ref();
            Poll::Pending
        }
    }
}

/// shared bookkeeping between the executor and the task bodies
struct Shared {
    /// task i is inside an "or give up" wait
    giveup_wait: Vec<Cell<bool>>,
    /// the executor fired the timeout of task i
    timeout: Vec<Cell<bool>>,
    violation: RefCell<Option<(&'static str, &'static str, String)>>,
    classes: Cell<u64>,
}

impl Shared {
    fn new(n: usize) -> Shared {
        Shared { giveup_wait: (0..n).map(|_| Cell::new(false)).collect(), timeout: (0..n).map(|_| Cell::new(false)).collect(), violation: RefCell::new(None), classes: Cell::new(0) }
    }
    fn violate(&self, p: &'static str, k: &'static str, d: String) {
        let mut v = self.violation.borrow_mut();
        if v.is_none() {
            *v = Some((p, k, d));
        }
    }
    fn class(&self, b: u32) {
        self.classes.set(self.classes.get() | (1 << b));
    }
}

/// polls `fut` until it completes or the executor fires this task's timeout; the future is
/// dropped in both cases when this returns
async fn or_give_up<F: Future>(sh: &Shared, me: usize, fut: F) -> Option<F::Output> {
    let mut fut = Box::pin(fut);
    let r = std::future::poll_fn(|cx| {
        if sh.timeout[me].get() {
            return Poll::Ready(None);
        }
        match fut.as_mut().poll(cx) {
            Poll::Ready(v) => Poll::Ready(Some(v)),
            Poll::Pending => {
                sh.giveup_wait[me].set(true);
                sh.class(CL_CONTENDED);
                Poll::Pending
            }
        }
    })
    .await;
    sh.giveup_wait[me].set(false);
    sh.timeout[me].set(false);
    if r.is_none() {
        sh.class(CL_GAVE_UP);
    }
    r
}

type Task<'a> = Pin<Box<dyn Future<Output = ()> + 'a>>;

fn scripts_of(ops: &[Op], n: usize, kinds: u8, max_steps: usize) -> Vec<Vec<u8>> {
    let mut s: Vec<Vec<u8>> = vec![Vec::new(); n];
    for op in ops.iter().filter(|o| o.code == OP_STEP) {
        let t = op.a as usize % n;
        if s[t].len() < max_steps {
            s[t].push(op.b % kinds);
        }
    }
    s
}

/// Runs the tasks under the schedule. `env_close` is invoked once at the first quiescence with
/// unfinished tasks. Returns the indices of tasks that never finished.
fn execute<'a>(tasks: &mut Vec<Option<Task<'a>>>, ops: &[Op], sh: &Shared, run: &mut Run, deadlock: (&'static str, Option<&'static str>), what: &str, env_close: &mut dyn FnMut() -> bool) {
    let n = tasks.len();
    let mut last_poll = vec![0u64; n];
    let mut polled = vec![false; n];
    let runnable = |i: usize, tasks: &Vec<Option<Task<'a>>>, last_poll: &Vec<u64>, polled: &Vec<bool>| tasks[i].is_some() && (!polled[i] || tls::last_wake(i * 2) > last_poll[i]);
    let poll_task = |i: usize, tasks: &mut Vec<Option<Task<'a>>>, last_poll: &mut Vec<u64>, polled: &mut Vec<bool>, run: &mut Run| {
        last_poll[i] = tls::tick();
        polled[i] = true;
        let waker = make_waker(i * 2);
        let mut cx = Context::from_waker(&waker);
        let t = tasks[i].as_mut().unwrap();
        let r = run.call("task poll", || t.as_mut().poll(&mut cx));
        if let Some(Poll::Ready(())) = r {
            let done = tasks[i].take();
            run.call("drop(task)", || drop(done));
        }
        run.note(|| format!("poll task {} -> {}", i, if tasks[i].is_none() { "finished" } else { "pending" }));
    };
    let check = |sh: &Shared, run: &mut Run| {
        if let Some((p, k, d)) = sh.violation.borrow_mut().take() {
            run.violate(p, k, d);
        }
    };
    let mut step = 0usize;
    for op in ops.iter() {
        if run.failed() {
            return;
        }
        run.set_step(step);
        step += 1;
        // every op of the history counts as executed (script steps take effect when the tasks are
        // built); scheduler decisions without a target are counted as "without effect"
        run.steps += 1;
        match op.code {
            OP_RUN => match (0..n).map(|d| (op.a as usize + d) % n).find(|&i| runnable(i, tasks, &last_poll, &polled)) {
                Some(i) => {
                    poll_task(i, tasks, &mut last_poll, &mut polled, run);
                }
                None => run.noops += 1,
            },
            OP_TIMEOUT => match (0..n).map(|d| (op.a as usize + d) % n).find(|&i| tasks[i].is_some() && sh.giveup_wait[i].get()) {
                Some(i) => {
                    if tls::last_wake(i * 2) > last_poll[i] {
                        sh.class(CL_TIMEOUT_WHILE_WOKEN);
                    }
                    sh.timeout[i].set(true);
                    run.note(|| format!("timeout fires for task {}", i));
                    poll_task(i, tasks, &mut last_poll, &mut polled, run);
                }
                None => run.noops += 1,
            },
            _ => {}
        }
        check(sh, run);
    }
    // round-robin until quiescence, then the environment's closing action once
    run.set_step(ops.len());
    let mut budget = 100_000usize;
    loop {
        if run.failed() {
            return;
        }
        match (0..n).find(|&i| runnable(i, tasks, &last_poll, &polled)) {
            Some(i) => {
                poll_task(i, tasks, &mut last_poll, &mut polled, run);
                check(sh, run);
                budget -= 1;
                if budget == 0 {
                    run.violate(deadlock.0, "livelock", format!("{}: tasks keep waking each other without finishing", what));
                    if run.failed() {
                        return;
                    }
                }
            }
            None => {
                let unfinished: Vec<usize> = (0..n).filter(|&i| tasks[i].is_some()).collect();
                if unfinished.is_empty() {
                    sh.class(CL_ALL_FINISHED);
                    return;
                }
                // the environment's closing action (set the event / close the channel); it is a
                // violation only if nothing becomes runnable through it
                if env_close() {
                    sh.class(CL_CLOSED_BY_ENV);
                    if (0..n).any(|i| runnable(i, tasks, &last_poll, &polled)) {
                        run.note(|| "quiescent: environment performs its closing action".to_string());
                        continue;
                    }
                }
                let detail = format!("{}: no task is runnable (every task is only polled after its own waker fired), yet tasks {:?} have not finished - a wake-up was lost", what, unfinished);
                match deadlock.1 {
                    Some(also) => run.violate2(deadlock.0, also, "deadlock", detail),
                    None => run.violate(deadlock.0, "deadlock", detail),
                }
                return;
            }
        }
    }
}

fn finish(tasks: Vec<Option<Task<'_>>>, sh: &Shared, run: &mut Run) {
    run.classes |= sh.classes.get();
    if run.failed() {
        for t in tasks {
            std::mem::forget(t);
        }
    } else {
        let r = lib_call(|| drop(tasks));
        if let Err(m) = r {
            run.violate("C01", "panic", format!("dropping the remaining tasks panicked: {}", m));
        }
    }
}

fn specs_for(n: u8, kinds: u8) -> Vec<OpSpec> {
    vec![spec("step", 30, n, kinds), spec("run", 60, n, 0), spec("timeout", 10, n, 0)]
}

// ---------------------------------------------------------------------------------------- mutex

impl World for TaskMutexWorld {
    fn id(&self) -> u8 {
        11
    }
    fn name(&self) -> &'static str {
        "t-mutex"
    }
    fn props(&self) -> &'static [&'static str] {
        &["C02", "C03"]
    }
    fn configs(&self, _tier: Tier) -> Vec<Cfg> {
        let mut v = Vec::new();
        for flavour in [FL_LOCAL, FL_SYNC, FL_CHECKED] {
            for mode in [0u8, 1] {
                for k in [2u8, 4] {
                    v.push(Cfg { flavour, mode, x: 0, y: 0, k, sw: 0 });
                }
            }
        }
        v
    }
    fn enum_configs(&self, _tier: Tier) -> Vec<(Cfg, usize)> {
        vec![]
    }
    fn specs(&self, cfg: &Cfg) -> Vec<OpSpec> {
        specs_for(cfg.k, 5)
    }
    fn run(&self, cfg: &Cfg, ops: &[Op], run: &mut Run) {
        match cfg.flavour {
            FL_LOCAL => t_mutex::<Noop>(cfg, ops, run),
            FL_SYNC => t_mutex::<PlLock>(cfg, ops, run),
            _ => t_mutex::<CheckedLock>(cfg, ops, run),
        }
    }
    fn nontrivial(&self, prop: &str, c: u64) -> bool {
        let b = |i: u32| c & (1 << i) != 0;
        matches!(prop, "C02" | "C03") && b(CL_CONTENDED) && b(CL_ALL_FINISHED)
    }
    fn cfg_desc(&self, cfg: &Cfg) -> String {
        format!("task programs on a mutex: {} tasks, lock={}, fair={}", cfg.k, flavour_name(cfg.flavour), cfg.mode == 1)
    }
    fn class_names(&self) -> &'static [&'static str] {
        CLASS_NAMES
    }
}

fn t_mutex<M: RawMutex>(cfg: &Cfg, ops: &[Op], run: &mut Run) {
    tls::reset_history();
    let n = cfg.k as usize;
    let scripts = scripts_of(ops, n, 5, 6);
    if scripts.iter().filter(|s| !s.is_empty()).count() >= 3 {
        run.class(CL_THREE_TASKS_ACTIVE);
    }
    let mutex: GenericMutex<M, u64> = GenericMutex::new(0, cfg.mode == 1);
    let sh = Shared::new(n);
    let in_cs = Cell::new(false);
    let increments = Cell::new(0u64);
    let mut tasks: Vec<Option<Task<'_>>> = Vec::new();
    for (me, script) in scripts.iter().enumerate() {
        let (mutex, sh, in_cs, increments) = (&mutex, &sh, &in_cs, &increments);
        let script = script.clone();
        tasks.push(Some(Box::pin(async move {
            for kind in script {
                // 0: lock, 1: lock and yield inside the critical section, 2: try_lock,
                // 3: lock or give up (yield inside), 4: yield
                let guard = match kind {
                    0 | 1 => Some({
                        let mut f = Box::pin(mutex.lock());
                        std::future::poll_fn(|cx| {
                            let r = f.as_mut().poll(cx);
                            if r.is_pending() {
                                sh.class(CL_CONTENDED);
                            }
                            r
                        })
                        .await
                    }),
                    2 => mutex.try_lock(),
                    3 => or_give_up(sh, me, mutex.lock()).await,
                    _ => {
                        YieldNow(false).await;
                        None
                    }
                };
                if let Some(mut g) = guard {
                    if in_cs.replace(true) {
                        sh.violate("C02", "two-tasks-in-critical-section", format!("task {} obtained the guard while another task is inside its critical section", me));
                    }
                    // a read-modify-write split over an await point on a non-atomic counter
                    let v = *g;
                    if kind == 1 || kind == 3 {
                        YieldNow(false).await;
                    }
                    *g = v + 1;
                    increments.set(increments.get() + 1);
                    in_cs.set(false);
                    drop(g);
                }
            }
        })));
    }
    execute(&mut tasks, ops, &sh, run, ("C03", None), "mutex", &mut || false);
    if !run.failed() {
        if let Some(g) = mutex.try_lock() {
            if *g != increments.get() {
                run.violate("C02", "lost-update", format!("the protected counter is {} after {} increments under the guard", *g, increments.get()));
            }
        } else {
            run.violate("C02", "locked-at-end", "every task has finished and dropped its guard but try_lock() fails".into());
        }
    }
    finish(tasks, &sh, run);
}

// ------------------------------------------------------------------------------------ semaphore

impl World for TaskSemaphoreWorld {
    fn id(&self) -> u8 {
        12
    }
    fn name(&self) -> &'static str {
        "t-semaphore"
    }
    fn props(&self) -> &'static [&'static str] {
        &["C05", "C06"]
    }
    fn configs(&self, _tier: Tier) -> Vec<Cfg> {
        let mut v = Vec::new();
        for flavour in [FL_LOCAL, FL_SYNC, FL_CHECKED] {
            for mode in [0u8, 1] {
                for (k, x) in [(3u8, 2u8), (4, 3)] {
                    v.push(Cfg { flavour, mode, x, y: 0, k, sw: 0 });
                }
            }
        }
        v
    }
    fn enum_configs(&self, _tier: Tier) -> Vec<(Cfg, usize)> {
        vec![]
    }
    fn specs(&self, cfg: &Cfg) -> Vec<OpSpec> {
        specs_for(cfg.k, 7)
    }
    fn run(&self, cfg: &Cfg, ops: &[Op], run: &mut Run) {
        match cfg.flavour {
            FL_LOCAL => t_sem::<Noop>(cfg, ops, run),
            FL_SYNC => t_sem::<PlLock>(cfg, ops, run),
            _ => t_sem::<CheckedLock>(cfg, ops, run),
        }
    }
    fn nontrivial(&self, prop: &str, c: u64) -> bool {
        let b = |i: u32| c & (1 << i) != 0;
        matches!(prop, "C05" | "C06") && b(CL_CONTENDED) && b(CL_ALL_FINISHED) && (prop == "C05" || b(CL_GAVE_UP))
    }
    fn cfg_desc(&self, cfg: &Cfg) -> String {
        format!("task programs on a semaphore: {} tasks, {} permits, lock={}, fair={}", cfg.k, cfg.x, flavour_name(cfg.flavour), cfg.mode == 1)
    }
    fn class_names(&self) -> &'static [&'static str] {
        CLASS_NAMES
    }
}

fn t_sem<M: RawMutex>(cfg: &Cfg, ops: &[Op], run: &mut Run) {
    tls::reset_history();
    let n = cfg.k as usize;
    let total = cfg.x as usize;
    let scripts = scripts_of(ops, n, 7, 6);
    if scripts.iter().filter(|s| !s.is_empty()).count() >= 3 {
        run.class(CL_THREE_TASKS_ACTIVE);
    }
    let sem: GenericSemaphore<M> = GenericSemaphore::new(cfg.mode == 1, total);
    let sh = Shared::new(n);
    let in_use = Cell::new(0usize);
    let mut tasks: Vec<Option<Task<'_>>> = Vec::new();
    for (me, script) in scripts.iter().enumerate() {
        let (sem, sh, in_use) = (&sem, &sh, &in_use);
        let script = script.clone();
        tasks.push(Some(Box::pin(async move {
            for kind in script {
                // 0..=2: acquire(1..=3) and yield while holding, 3..=4: acquire(1..=2) or give up,
                // 5: try_acquire(1), 6: yield
                let want = match kind {
                    0..=2 => (kind as usize + 1).min(total),
                    3..=4 => (kind as usize - 2).min(total),
                    5 => 1,
                    _ => 0,
                };
                let rel = match kind {
                    0..=2 => Some({
                        let mut f = Box::pin(sem.acquire(want));
                        std::future::poll_fn(|cx| {
                            let r = f.as_mut().poll(cx);
                            if r.is_pending() {
                                sh.class(CL_CONTENDED);
                            }
                            r
                        })
                        .await
                    }),
                    3..=4 => or_give_up(sh, me, sem.acquire(want)).await,
                    5 => sem.try_acquire(want),
                    _ => {
                        YieldNow(false).await;
                        None
                    }
                };
                if let Some(r) = rel {
                    in_use.set(in_use.get() + want);
                    if in_use.get() > total {
                        sh.violate("C05", "over-grant", format!("task {} was granted {} permits: {} permits are in use but only {} exist", me, want, in_use.get(), total));
                    }
                    YieldNow(false).await;
                    in_use.set(in_use.get() - want);
                    drop(r);
                }
            }
        })));
    }
    execute(&mut tasks, ops, &sh, run, ("C06", None), "semaphore", &mut || false);
    if !run.failed() && sem.permits() != total {
        run.violate("C05", "permits-not-conserved", format!("all tasks finished and released, permits() == {} but {} permits exist", sem.permits(), total));
    }
    finish(tasks, &sh, run);
}

// ---------------------------------------------------------------------------------------- event

impl World for TaskEventWorld {
    fn id(&self) -> u8 {
        13
    }
    fn name(&self) -> &'static str {
        "t-event"
    }
    fn props(&self) -> &'static [&'static str] {
        &["C14"]
    }
    fn configs(&self, _tier: Tier) -> Vec<Cfg> {
        [FL_LOCAL, FL_SYNC, FL_CHECKED].iter().map(|&flavour| Cfg { flavour, mode: 0, x: 0, y: 0, k: 4, sw: 0 }).collect()
    }
    fn enum_configs(&self, _tier: Tier) -> Vec<(Cfg, usize)> {
        vec![]
    }
    fn specs(&self, cfg: &Cfg) -> Vec<OpSpec> {
        specs_for(cfg.k, 5)
    }
    fn run(&self, cfg: &Cfg, ops: &[Op], run: &mut Run) {
        match cfg.flavour {
            FL_LOCAL => t_event::<Noop>(cfg, ops, run),
            FL_SYNC => t_event::<PlLock>(cfg, ops, run),
            _ => t_event::<CheckedLock>(cfg, ops, run),
        }
    }
    fn nontrivial(&self, prop: &str, c: u64) -> bool {
        let b = |i: u32| c & (1 << i) != 0;
        prop == "C14" && b(CL_CONTENDED) && b(CL_ALL_FINISHED)
    }
    fn cfg_desc(&self, cfg: &Cfg) -> String {
        format!("task programs on a manual reset event: {} tasks, lock={}", cfg.k, flavour_name(cfg.flavour))
    }
    fn class_names(&self) -> &'static [&'static str] {
        CLASS_NAMES
    }
}

fn t_event<M: RawMutex>(cfg: &Cfg, ops: &[Op], run: &mut Run) {
    tls::reset_history();
    let n = cfg.k as usize;
    let scripts = scripts_of(ops, n, 5, 6);
    let event: GenericManualResetEvent<M> = GenericManualResetEvent::new(false);
    let sh = Shared::new(n);
    let mut tasks: Vec<Option<Task<'_>>> = Vec::new();
    for (me, script) in scripts.iter().enumerate() {
        let (event, sh) = (&event, &sh);
        let script = script.clone();
        tasks.push(Some(Box::pin(async move {
            for kind in script {
                // 0: wait, 1: wait or give up, 2: set, 3: reset, 4: yield
                match kind {
                    0 => {
                        let mut f = Box::pin(event.wait());
                        std::future::poll_fn(|cx| {
                            let r = f.as_mut().poll(cx);
                            if r.is_pending() {
                                sh.class(CL_CONTENDED);
                            }
                            r
                        })
                        .await
                    }
                    1 => {
                        or_give_up(sh, me, event.wait()).await;
                    }
                    2 => event.set(),
                    3 => event.reset(),
                    _ => YieldNow(false).await,
                }
            }
        })));
    }
    execute(&mut tasks, ops, &sh, run, ("C14", None), "event", &mut || {
        event.set();
        true
    });
    finish(tasks, &sh, run);
}

// ----------------------------------------------------------------------------------------- mpmc

impl World for TaskMpmcWorld {
    fn id(&self) -> u8 {
        14
    }
    fn name(&self) -> &'static str {
        "t-mpmc"
    }
    fn props(&self) -> &'static [&'static str] {
        &["C08", "C09", "C10"]
    }
    fn configs(&self, _tier: Tier) -> Vec<Cfg> {
        // k tasks: the first half produce, the rest consume; x = capacity; y = buffer kind
        let mut v = Vec::new();
        for flavour in [FL_LOCAL, FL_SYNC, FL_CHECKED] {
            for x in 0..=2u8 {
                v.push(Cfg { flavour, mode: 0, x, y: 0, k: 4, sw: 0 });
            }
            v.push(Cfg { flavour, mode: 0, x: 1, y: 2, k: 5, sw: 0 });
        }
        v
    }
    fn enum_configs(&self, _tier: Tier) -> Vec<(Cfg, usize)> {
        vec![]
    }
    fn specs(&self, cfg: &Cfg) -> Vec<OpSpec> {
        specs_for(cfg.k, 4)
    }
    fn run(&self, cfg: &Cfg, ops: &[Op], run: &mut Run) {
        macro_rules! go {
            ($m:ty) => {
                match (cfg.y, cfg.x) {
                    (0, 0) => t_mpmc::<$m, ArrayBuf<Tagged, [Tagged; 0]>>(cfg, ops, run),
                    (0, 1) => t_mpmc::<$m, ArrayBuf<Tagged, [Tagged; 1]>>(cfg, ops, run),
                    (0, _) => t_mpmc::<$m, ArrayBuf<Tagged, [Tagged; 2]>>(cfg, ops, run),
                    _ => t_mpmc::<$m, GrowingHeapBuf<Tagged>>(cfg, ops, run),
                }
            };
        }
        match cfg.flavour {
            FL_LOCAL => go!(Noop),
            FL_SYNC => go!(PlLock),
            _ => go!(CheckedLock),
        }
    }
    fn nontrivial(&self, prop: &str, c: u64) -> bool {
        let b = |i: u32| c & (1 << i) != 0;
        matches!(prop, "C08" | "C09" | "C10") && b(CL_CONTENDED) && b(CL_ALL_FINISHED) && b(CL_DELIVERED_TWO) && (prop != "C10" || b(CL_GAVE_UP))
    }
    fn cfg_desc(&self, cfg: &Cfg) -> String {
        format!("task programs on an mpmc channel: {} producers, {} consumers, capacity {}, buffer={}, lock={}", cfg.k / 2, cfg.k - cfg.k / 2, cfg.x, if cfg.y == 0 { "ArrayBuf" } else { "GrowingHeapBuf" }, flavour_name(cfg.flavour))
    }
    fn class_names(&self) -> &'static [&'static str] {
        CLASS_NAMES
    }
}

fn t_mpmc<M: RawMutex, A: RingBuf<Item = Tagged>>(cfg: &Cfg, ops: &[Op], run: &mut Run) {
    tls::reset_history();
    payload::reset();
    let n = cfg.k as usize;
    let producers = n / 2;
    let scripts = scripts_of(ops, n, 4, 5);
    let chan: GenericChannel<M, Tagged, A> = GenericChannel::with_capacity(cfg.x as usize);
    let sh = Shared::new(n);
    // (producer, id) in send order per producer; ids received in global order
    let sent: RefCell<Vec<(usize, u16)>> = RefCell::new(Vec::new());
    let received: RefCell<Vec<u16>> = RefCell::new(Vec::new());
    let returned: RefCell<Vec<u16>> = RefCell::new(Vec::new());
    let accepted: RefCell<Vec<u16>> = RefCell::new(Vec::new());
    let producers_done = Cell::new(0usize);
    let cap = cfg.x as usize;
    let mut tasks: Vec<Option<Task<'_>>> = Vec::new();
    for (me, script) in scripts.iter().enumerate() {
        let (chan, sh, sent, received, returned, accepted, producers_done) = (&chan, &sh, &sent, &received, &returned, &accepted, &producers_done);
        let script = script.clone();
        if me < producers {
            tasks.push(Some(Box::pin(async move {
                for kind in script {
                    // 0: send, 1: send or give up (drops the send future), 2: try_send, 3: yield
                    if kind == 3 {
                        YieldNow(false).await;
                        continue;
                    }
                    let Some(v) = Tagged::fresh() else { break };
                    let id = v.id;
                    sent.borrow_mut().push((me, id));
                    match kind {
                        0 => {
                            let mut f = Box::pin(chan.send(v));
                            let r = std::future::poll_fn(|cx| {
                                let r = f.as_mut().poll(cx);
                                if r.is_pending() {
                                    sh.class(CL_CONTENDED);
                                }
                                r
                            })
                            .await;
                            match r {
                                Err(e) => returned.borrow_mut().push(e.0.id),
                                Ok(()) => accepted.borrow_mut().push(id),
                            }
                        }
                        1 => match or_give_up(sh, me, chan.send(v)).await {
                            Some(Err(e)) => returned.borrow_mut().push(e.0.id),
                            Some(Ok(())) => accepted.borrow_mut().push(id),
                            None => {}
                        },
                        _ => {
                            if cap > 0 {
                                match chan.try_send(v) {
                                    Err(e) => returned.borrow_mut().push(e.into_inner().id),
                                    Ok(()) => accepted.borrow_mut().push(id),
                                }
                            } else {
                                // try_send is not supported on unbuffered channels: hand it back ourselves
                                returned.borrow_mut().push(v.id);
                            }
                        }
                    }
                }
                producers_done.set(producers_done.get() + 1);
                if producers_done.get() == producers {
                    // the last producer closes the channel, possibly with values still buffered
                    chan.close();
                }
            })));
        } else if me == producers {
            // the consumer that never gives up
            tasks.push(Some(Box::pin(async move {
                loop {
                    let mut f = Box::pin(chan.receive());
                    let r = std::future::poll_fn(|cx| {
                        let r = f.as_mut().poll(cx);
                        if r.is_pending() {
                            sh.class(CL_CONTENDED);
                        }
                        r
                    })
                    .await;
                    match r {
                        Some(v) => received.borrow_mut().push(v.id),
                        None => break,
                    }
                }
            })));
        } else {
            tasks.push(Some(Box::pin(async move {
                for kind in script {
                    // 0: receive, 1: receive or give up, 2: try_receive, 3: yield
                    match kind {
                        0 => {
                            if let Some(v) = chan.receive().await {
                                received.borrow_mut().push(v.id)
                            }
                        }
                        1 => {
                            if let Some(Some(v)) = or_give_up(sh, me, chan.receive()).await {
                                received.borrow_mut().push(v.id)
                            }
                        }
                        2 => {
                            if let Ok(v) = chan.try_receive() {
                                received.borrow_mut().push(v.id)
                            }
                        }
                        _ => YieldNow(false).await,
                    }
                }
            })));
        }
    }
    execute(&mut tasks, ops, &sh, run, ("C10", Some("C08")), "mpmc channel", &mut || {
        // the environment closes the channel once all producers have finished their scripts
        if producers_done.get() == producers {
            chan.close();
            true
        } else {
            false
        }
    });
    finish(tasks, &sh, run);
    if run.failed() {
        std::mem::forget(chan);
        return;
    }
    let received = received.into_inner();
    let returned = returned.into_inner();
    let sent = sent.into_inner();
    if received.len() >= 2 {
        run.class(CL_DELIVERED_TWO);
    }
    // exactly once
    for (i, id) in received.iter().enumerate() {
        if received[..i].contains(id) {
            run.violate("C08", "delivered-twice", format!("v{} was received twice", id));
            if run.failed() {
                return;
            }
        }
        if returned.contains(id) {
            run.violate("C08", "delivered-and-returned", format!("v{} was received and also handed back to its sender", id));
            if run.failed() {
                return;
            }
        }
        if !sent.iter().any(|(_, s)| s == id) {
            run.violate("C08", "unknown-value", format!("v{} was received but never sent", id));
            if run.failed() {
                return;
            }
        }
    }
    // the consumer that never gives up drains the channel until None: every accepted value arrives
    for id in accepted.into_inner() {
        if !received.contains(&id) {
            run.violate2("C08", "C11", "accepted-value-lost", format!("the send of v{} returned Ok, the channel was drained until None, but v{} was never received", id, id));
            if run.failed() {
                return;
            }
        }
    }
    // per-producer order survives any schedule
    for p in 0..producers {
        let order: Vec<u16> = sent.iter().filter(|(q, _)| *q == p).map(|(_, id)| *id).collect();
        let got: Vec<usize> = received.iter().filter_map(|id| order.iter().position(|o| o == id)).collect();
        if got.windows(2).any(|w| w[0] > w[1]) {
            run.violate("C09", "per-producer-order", format!("values of producer {} were sent in the order {:?} but received in the order {:?}", p, order, got.iter().map(|i| order[*i]).collect::<Vec<_>>()));
            if run.failed() {
                return;
            }
        }
    }
    // everything else was dropped exactly once with the future, the buffer or the channel
    if let Err(m) = lib_call(|| drop(chan)) {
        run.violate("C01", "panic", format!("dropping the channel panicked: {}", m));
        if run.failed() {
            return;
        }
    }
    for (_, id) in &sent {
        let expect = 1;
        // received and returned values were dropped by the tasks that obtained them
        if payload::drops(*id) != expect {
            run.violate("C08", "drop-count", format!("v{} was dropped {} times after everything is gone (received: {}, returned: {})", id, payload::drops(*id), received.contains(id), returned.contains(id)));
            if run.failed() {
                return;
            }
        }
    }
}


// -------------------------------------------------------------------------------------- oneshot

pub struct TaskOneshotWorld;
pub struct TaskStateWorld;
pub struct TaskTimerWorld;

impl World for TaskOneshotWorld {
    fn id(&self) -> u8 {
        15
    }
    fn name(&self) -> &'static str {
        "t-oneshot"
    }
    fn props(&self) -> &'static [&'static str] {
        &["C12"]
    }
    fn configs(&self, _tier: Tier) -> Vec<Cfg> {
        let mut v = Vec::new();
        for flavour in [FL_LOCAL, FL_SYNC, FL_CHECKED] {
            for mode in [0u8, 1] {
                v.push(Cfg { flavour, mode, x: 0, y: 0, k: 4, sw: 0 });
            }
        }
        v
    }
    fn enum_configs(&self, _tier: Tier) -> Vec<(Cfg, usize)> {
        vec![]
    }
    fn specs(&self, cfg: &Cfg) -> Vec<OpSpec> {
        specs_for(cfg.k, 3)
    }
    fn run(&self, cfg: &Cfg, ops: &[Op], run: &mut Run) {
        use futures_intrusive::channel::{GenericOneshotBroadcastChannel, GenericOneshotChannel};
        macro_rules! go {
            ($m:ty) => {
                if cfg.mode == 0 {
                    let c: GenericOneshotChannel<$m, Tagged> = GenericOneshotChannel::new();
                    t_oneshot(cfg, ops, run, &|v| c.send(v).map_err(|e| e.0), &|| Box::pin(c.receive()), &|| {
                        c.close();
                    })
                } else {
                    let c: GenericOneshotBroadcastChannel<$m, Tagged> = GenericOneshotBroadcastChannel::new();
                    t_oneshot(cfg, ops, run, &|v| c.send(v).map_err(|e| e.0), &|| Box::pin(c.receive()), &|| {
                        c.close();
                    })
                }
            };
        }
        match cfg.flavour {
            FL_LOCAL => go!(Noop),
            FL_SYNC => go!(PlLock),
            _ => go!(CheckedLock),
        }
    }
    fn nontrivial(&self, prop: &str, c: u64) -> bool {
        let b = |i: u32| c & (1 << i) != 0;
        prop == "C12" && b(CL_CONTENDED) && b(CL_ALL_FINISHED) && b(CL_THREE_TASKS_ACTIVE)
    }
    fn cfg_desc(&self, cfg: &Cfg) -> String {
        format!("task programs on a {} channel: 1 sender, {} competing receivers, lock={}", if cfg.mode == 1 { "oneshot broadcast" } else { "oneshot" }, cfg.k - 1, flavour_name(cfg.flavour))
    }
    fn class_names(&self) -> &'static [&'static str] {
        CLASS_NAMES
    }
}

type RecvFut<'a> = Pin<Box<dyn Future<Output = Option<Tagged>> + 'a>>;

fn t_oneshot<'a>(cfg: &Cfg, ops: &[Op], run: &mut Run, send: &'a dyn Fn(Tagged) -> Result<(), Tagged>, receive: &'a dyn Fn() -> RecvFut<'a>, close: &'a dyn Fn()) {
    tls::reset_history();
    payload::reset();
    let n = cfg.k as usize;
    let bc = cfg.mode == 1;
    let scripts = scripts_of(ops, n, 3, 4);
    if scripts.iter().filter(|s| !s.is_empty()).count() >= 3 {
        run.class(CL_THREE_TASKS_ACTIVE);
    }
    let sh = Shared::new(n);
    let sent_ok: Cell<Option<u16>> = Cell::new(None);
    let finished_state: Cell<u8> = Cell::new(0); // 0 open, 1 sent, 2 closed
    let got_value = Cell::new(0u32);
    let mut tasks: Vec<Option<Task<'_>>> = Vec::new();
    for (me, script) in scripts.iter().enumerate() {
        let (sh, sent_ok, finished_state, got_value) = (&sh, &sent_ok, &finished_state, &got_value);
        let script = script.clone();
        if me == 0 {
            tasks.push(Some(Box::pin(async move {
                for kind in script {
                    // 0: yield, 1: send, 2: close
                    match kind {
                        0 => YieldNow(false).await,
                        1 => {
                            let Some(v) = Tagged::fresh() else { break };
                            let id = v.id;
                            match send(v) {
                                Ok(()) => {
                                    if finished_state.get() != 0 {
                                        sh.violate("C12", "second-send-accepted", format!("send(v{}) succeeded although the channel was already used or closed", id));
                                    }
                                    sent_ok.set(Some(id));
                                    finished_state.set(1);
                                }
                                Err(back) => {
                                    if back.id != id {
                                        sh.violate("C12", "wrong-value-returned", format!("send(v{}) returned v{}", id, back.id));
                                    }
                                    if finished_state.get() == 0 {
                                        sh.violate("C12", "first-send-rejected", format!("send(v{}) on an open channel failed", id));
                                    }
                                }
                            }
                        }
                        _ => {
                            close();
                            if finished_state.get() == 0 {
                                finished_state.set(2);
                            }
                        }
                    }
                }
            })));
        } else {
            tasks.push(Some(Box::pin(async move {
                for kind in script {
                    // 0: receive, 1: receive or give up, 2: yield
                    let r = match kind {
                        0 => {
                            let mut f = receive();
                            Some(
                                std::future::poll_fn(|cx| {
                                    let r = f.as_mut().poll(cx);
                                    if r.is_pending() {
                                        sh.class(CL_CONTENDED);
                                    }
                                    r
                                })
                                .await,
                            )
                        }
                        1 => or_give_up(sh, me, receive()).await,
                        _ => {
                            YieldNow(false).await;
                            None
                        }
                    };
                    if let Some(res) = r {
                        // the receive completed: the channel must have been fulfilled or closed
                        match (finished_state.get(), res) {
                            (0, r) => sh.violate("C12", "completed-on-open-channel", format!("a receive of task {} completed with {:?} although nothing was sent and the channel is open", me, r.map(|t| t.id))),
                            (1, Some(v)) => {
                                if Some(v.id) != sent_ok.get() {
                                    sh.violate("C12", "wrong-value", format!("task {} received v{} but v{:?} was sent", me, v.id, sent_ok.get()));
                                }
                                got_value.set(got_value.get() + 1);
                                if !bc && got_value.get() > 1 {
                                    sh.violate("C12", "value-delivered-twice", format!("task {} is the second receiver that obtained the oneshot value", me));
                                }
                            }
                            (1, None) => {
                                if bc {
                                    sh.violate("C12", "broadcast-missed", format!("task {} got None from a fulfilled broadcast channel", me));
                                } else if got_value.get() == 0 {
                                    sh.violate("C12", "value-lost", format!("task {} got None although the value was sent and nobody has received it", me));
                                }
                            }
                            (_, Some(v)) => sh.violate("C12", "value-after-close", format!("task {} received v{} from a channel closed without a value", me, v.id)),
                            (_, None) => {}
                        }
                    }
                }
            })));
        }
    }
    execute(&mut tasks, ops, &sh, run, ("C12", Some("C11")), "oneshot channel", &mut || {
        close();
        if finished_state.get() == 0 {
            finished_state.set(2);
        }
        true
    });
    finish(tasks, &sh, run);
}

// ---------------------------------------------------------------------------------------- state

impl World for TaskStateWorld {
    fn id(&self) -> u8 {
        16
    }
    fn name(&self) -> &'static str {
        "t-state"
    }
    fn props(&self) -> &'static [&'static str] {
        &["C13"]
    }
    fn configs(&self, _tier: Tier) -> Vec<Cfg> {
        [FL_LOCAL, FL_SYNC, FL_CHECKED].iter().map(|&flavour| Cfg { flavour, mode: 0, x: 0, y: 0, k: 4, sw: 0 }).collect()
    }
    fn enum_configs(&self, _tier: Tier) -> Vec<(Cfg, usize)> {
        vec![]
    }
    fn specs(&self, cfg: &Cfg) -> Vec<OpSpec> {
        specs_for(cfg.k, 3)
    }
    fn run(&self, cfg: &Cfg, ops: &[Op], run: &mut Run) {
        match cfg.flavour {
            FL_LOCAL => t_state::<Noop>(cfg, ops, run),
            FL_SYNC => t_state::<PlLock>(cfg, ops, run),
            _ => t_state::<CheckedLock>(cfg, ops, run),
        }
    }
    fn nontrivial(&self, prop: &str, c: u64) -> bool {
        let b = |i: u32| c & (1 << i) != 0;
        prop == "C13" && b(CL_CONTENDED) && b(CL_ALL_FINISHED) && b(CL_DELIVERED_TWO)
    }
    fn cfg_desc(&self, cfg: &Cfg) -> String {
        format!("task programs on a state broadcast channel: 1 publisher, {} followers, lock={}", cfg.k - 1, flavour_name(cfg.flavour))
    }
    fn class_names(&self) -> &'static [&'static str] {
        CLASS_NAMES
    }
}

fn t_state<M: RawMutex>(cfg: &Cfg, ops: &[Op], run: &mut Run) {
    use futures_intrusive::channel::{GenericStateBroadcastChannel, StateId};
    tls::reset_history();
    payload::reset();
    let n = cfg.k as usize;
    let scripts = scripts_of(ops, n, 3, 5);
    let chan: GenericStateBroadcastChannel<M, Tagged> = GenericStateBroadcastChannel::new();
    let sh = Shared::new(n);
    let published: RefCell<Vec<u16>> = RefCell::new(Vec::new());
    let closed = Cell::new(false);
    let mut tasks: Vec<Option<Task<'_>>> = Vec::new();
    for (me, script) in scripts.iter().enumerate() {
        let (chan, sh, published, closed) = (&chan, &sh, &published, &closed);
        let script = script.clone();
        if me == 0 {
            tasks.push(Some(Box::pin(async move {
                for kind in script {
                    // 0: publish, 1: yield, 2: publish twice in a row
                    let count = match kind {
                        0 => 1,
                        2 => 2,
                        _ => {
                            YieldNow(false).await;
                            0
                        }
                    };
                    for _ in 0..count {
                        let Some(v) = Tagged::fresh() else { break };
                        let id = v.id;
                        match chan.send(v) {
                            Ok(()) => published.borrow_mut().push(id),
                            Err(_) => sh.violate("C11", "send-rejected-while-open", format!("the publisher's send(v{}) failed on an open channel", id)),
                        }
                    }
                }
                closed.set(true);
                chan.close();
            })));
        } else {
            tasks.push(Some(Box::pin(async move {
                // a follower feeds back the id it got until the channel reports the end;
                // script kind 1 at position i makes the i-th wait an "or give up" wait
                let mut last_id = StateId::new();
                let mut last_val: Option<u16> = None;
                let mut seen = 0u32;
                let mut i = 0usize;
                loop {
                    // a follower that has seen a violation stops (a broken channel could feed it forever)
                    if sh.violation.borrow().is_some() || i > 10_000 {
                        break;
                    }
                    let give_up = script.get(i).copied() == Some(1);
                    i += 1;
                    let r = if give_up {
                        match or_give_up(sh, me, chan.receive(last_id)).await {
                            Some(r) => r,
                            None => continue,
                        }
                    } else {
                        let mut f = Box::pin(chan.receive(last_id));
                        std::future::poll_fn(|cx| {
                            let r = f.as_mut().poll(cx);
                            if r.is_pending() {
                                sh.class(CL_CONTENDED);
                            }
                            r
                        })
                        .await
                    };
                    match r {
                        Some((id, v)) => {
                            if !(id > last_id) {
                                sh.violate("C13", "id-not-larger", format!("follower {} passed {:?} and got {:?}", me, last_id, id));
                            }
                            let pubs = published.borrow();
                            let pos_new = pubs.iter().position(|p| *p == v.id);
                            let pos_old = last_val.and_then(|l| pubs.iter().position(|p| *p == l));
                            match pos_new {
                                None => sh.violate("C13", "state-from-nowhere", format!("follower {} received v{} which was never published", me, v.id)),
                                Some(pn) => {
                                    if pos_old.is_some_and(|po| pn <= po) {
                                        sh.violate("C13", "not-increasing", format!("follower {} saw v{} after v{:?}: not a strictly increasing subsequence of the published states", me, v.id, last_val));
                                    }
                                    if pn + 1 != pubs.len() {
                                        sh.violate("C13", "stale-state", format!("follower {} received v{} but the most recently published state is v{}", me, v.id, pubs[pubs.len() - 1]));
                                    }
                                }
                            }
                            last_id = id;
                            last_val = Some(v.id);
                            seen += 1;
                            if seen >= 2 {
                                sh.class(CL_DELIVERED_TWO);
                            }
                        }
                        None => {
                            if !closed.get() {
                                sh.violate("C11", "closed-reported-while-open", format!("follower {} got None although the channel is open", me));
                            }
                            // a receiver that has not yet seen the latest state still gets it
                            let pubs = published.borrow();
                            if pubs.last().copied() != last_val {
                                sh.violate("C13", "latest-state-withheld", format!("follower {} got None after close but its last state is v{:?} and the latest published one is v{:?}", me, last_val, pubs.last()));
                            }
                            break;
                        }
                    }
                }
            })));
        }
    }
    execute(&mut tasks, ops, &sh, run, ("C13", Some("C11")), "state broadcast channel", &mut || false);
    finish(tasks, &sh, run);
}

// ---------------------------------------------------------------------------------------- timer

struct TaskClock;
impl futures_intrusive::timer::Clock for TaskClock {
    fn now(&self) -> u64 {
        tls::clock_get()
    }
}
static TASK_CLOCK: TaskClock = TaskClock;

impl World for TaskTimerWorld {
    fn id(&self) -> u8 {
        17
    }
    fn name(&self) -> &'static str {
        "t-timer"
    }
    fn props(&self) -> &'static [&'static str] {
        &["C15"]
    }
    fn configs(&self, _tier: Tier) -> Vec<Cfg> {
        [FL_LOCAL, FL_SYNC, FL_CHECKED].iter().map(|&flavour| Cfg { flavour, mode: 0, x: 0, y: 0, k: 4, sw: 0 }).collect()
    }
    fn enum_configs(&self, _tier: Tier) -> Vec<(Cfg, usize)> {
        vec![]
    }
    fn specs(&self, cfg: &Cfg) -> Vec<OpSpec> {
        specs_for(cfg.k, 5)
    }
    fn run(&self, cfg: &Cfg, ops: &[Op], run: &mut Run) {
        match cfg.flavour {
            FL_LOCAL => t_timer::<Noop>(cfg, ops, run),
            FL_SYNC => t_timer::<PlLock>(cfg, ops, run),
            _ => t_timer::<CheckedLock>(cfg, ops, run),
        }
    }
    fn nontrivial(&self, prop: &str, c: u64) -> bool {
        let b = |i: u32| c & (1 << i) != 0;
        prop == "C15" && b(CL_CONTENDED) && b(CL_ALL_FINISHED) && b(CL_THREE_TASKS_ACTIVE)
    }
    fn cfg_desc(&self, cfg: &Cfg) -> String {
        format!("task programs on a timer service: {} tasks sleeping, the environment advances the clock to the next expiration, lock={}", cfg.k, flavour_name(cfg.flavour))
    }
    fn class_names(&self) -> &'static [&'static str] {
        CLASS_NAMES
    }
}

fn t_timer<M: RawMutex>(cfg: &Cfg, ops: &[Op], run: &mut Run) {
    use futures_intrusive::timer::{GenericTimerService, LocalTimer};
    use std::time::Duration;
    tls::reset_history();
    let n = cfg.k as usize;
    let scripts = scripts_of(ops, n, 5, 5);
    if scripts.iter().filter(|s| !s.is_empty()).count() >= 3 {
        run.class(CL_THREE_TASKS_ACTIVE);
    }
    let svc: GenericTimerService<M> = GenericTimerService::new(&TASK_CLOCK);
    let sh = Shared::new(n);
    let mut tasks: Vec<Option<Task<'_>>> = Vec::new();
    for (me, script) in scripts.iter().enumerate() {
        let (svc, sh) = (&svc, &sh);
        let script = script.clone();
        tasks.push(Some(Box::pin(async move {
            for kind in script {
                // 0: delay 1, 1: delay 3, 2: deadline 5 (absolute), 3: delay 2 or give up, 4: yield
                let deadline = match kind {
                    0 => tls::clock_get() + 1,
                    1 => tls::clock_get() + 3,
                    2 => 5,
                    3 => tls::clock_get() + 2,
                    _ => {
                        YieldNow(false).await;
                        continue;
                    }
                };
                let completed = match kind {
                    0 | 1 => {
                        let mut f = Box::pin(LocalTimer::delay(svc, Duration::from_millis(deadline - tls::clock_get())));
                        std::future::poll_fn(|cx| {
                            let r = f.as_mut().poll(cx);
                            if r.is_pending() {
                                sh.class(CL_CONTENDED);
                            }
                            r
                        })
                        .await;
                        true
                    }
                    2 => {
                        let mut f = Box::pin(LocalTimer::deadline(svc, 5));
                        std::future::poll_fn(|cx| {
                            let r = f.as_mut().poll(cx);
                            if r.is_pending() {
                                sh.class(CL_CONTENDED);
                            }
                            r
                        })
                        .await;
                        true
                    }
                    _ => or_give_up(sh, me, LocalTimer::deadline(svc, deadline)).await.is_some(),
                };
                if completed && tls::clock_get() < deadline {
                    sh.violate("C15", "early", format!("task {} woke from a sleep until {} at clock {}", me, deadline, tls::clock_get()));
                }
            }
        })));
    }
    // the environment: advance the clock to the next expiration and check expirations
    execute(&mut tasks, ops, &sh, run, ("C15", None), "timer service", &mut || match svc.next_expiration() {
        Some(t) => {
            if t > tls::clock_get() {
                tls::clock_set(t);
            }
            svc.check_expirations();
            true
        }
        None => false,
    });
    finish(tasks, &sh, run);
}
