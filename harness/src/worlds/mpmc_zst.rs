//! MPMC channel with zero-sized, drop-counting elements: the count-based part of C08 and C09.
//!
//! Values of a zero-sized type have no identity, so the life-line oracle of the `mpmc` world does
//! not apply; what remains decidable are the counting clauses, and they must hold for every
//! element type: nothing is received that was not sent, nothing is dropped twice or leaked, at
//! most `capacity` accepted-but-unreceived values exist, and an unbuffered send completes only
//! after a receiver took its value. Every check below is an inequality that holds in all states
//! of a correct channel (no prediction of individual results), so it cannot raise a false alarm.

use crate::common::lock::{CheckedLock, Noop};
use crate::common::*;
use futures_intrusive::buffer::{ArrayBuf, FixedHeapBuf, GrowingHeapBuf, RingBuf};
use futures_intrusive::channel::{ChannelReceiveFuture, ChannelSendFuture, GenericChannel, TryReceiveError, TrySendError};
use lock_api::RawMutex;
use std::task::Poll;

pub struct MpmcZstWorld;

pub const OP_MK_SEND: u8 = 0;
pub const OP_POLL_SEND: u8 = 1;
pub const OP_DROP_SEND: u8 = 2;
pub const OP_CANCEL_SEND: u8 = 3;
pub const OP_MK_RECV: u8 = 4;
pub const OP_POLL_RECV: u8 = 5;
pub const OP_DROP_RECV: u8 = 6;
pub const OP_TRY_SEND: u8 = 7;
pub const OP_TRY_RECV: u8 = 8;
pub const OP_CLOSE: u8 = 9;

pub const CL_DELIVERED: u32 = 0;
pub const CL_WITHDRAWN: u32 = 1;
pub const CL_AT_CAPACITY: u32 = 2;
pub const CL_REFUSED_AT_CAPACITY: u32 = 3;
pub const CL_DROPPED_BY_CHANNEL: u32 = 4;
pub const CL_PARKED_SENDER_COMPLETED: u32 = 5;

const CLASS_NAMES: &[&str] = &[
    "value-delivered",
    "value-withdrawn(cancel|drop|close|refused)",
    "accepted-unreceived-reached-capacity",
    "send-parked-or-refused-at-capacity",
    "value-dropped-by-channel-or-future",
    "parked-sender-completed-after-receive",
];

pub const BUF_ARRAY: u8 = 0;
pub const BUF_FIXED: u8 = 1;
pub const BUF_GROWING: u8 = 2;

/// A zero-sized element whose constructions and drops are counted.
pub struct Z;

thread_local! {
    static Z_DROPS: std::cell::Cell<u64> = const { std::cell::Cell::new(0) };
}

impl Drop for Z {
    fn drop(&mut self) {
        let _ = Z_DROPS.try_with(|c| c.set(c.get() + 1));
    }
}

fn z_drops() -> u64 {
    Z_DROPS.with(|c| c.get())
}

impl World for MpmcZstWorld {
    fn id(&self) -> u8 {
        18
    }
    fn shared_wakers(&self) -> bool {
        true
    }
    fn name(&self) -> &'static str {
        "mpmc-zst"
    }
    fn props(&self) -> &'static [&'static str] {
        &["C08", "C09"]
    }
    fn configs(&self, tier: Tier) -> Vec<Cfg> {
        let k = if tier == Tier::Quick { 3 } else { 4 };
        let mut v = Vec::new();
        for flavour in [FL_LOCAL, FL_CHECKED] {
            for y in [BUF_ARRAY, BUF_FIXED, BUF_GROWING] {
                for x in [0u8, 1, 2, 3] {
                    v.push(Cfg { flavour, mode: 0, x, y, k, sw: 0 });
                }
            }
        }
        v
    }
    fn enum_configs(&self, tier: Tier) -> Vec<(Cfg, usize)> {
        let d = if tier == Tier::Quick { 5 } else { 7 };
        vec![
            (Cfg { flavour: FL_CHECKED, mode: 0, x: 0, y: BUF_FIXED, k: 2, sw: 0 }, d),
            (Cfg { flavour: FL_CHECKED, mode: 0, x: 1, y: BUF_FIXED, k: 2, sw: 0 }, d),
            (Cfg { flavour: FL_CHECKED, mode: 0, x: 1, y: BUF_ARRAY, k: 2, sw: 0 }, d),
            (Cfg { flavour: FL_CHECKED, mode: 0, x: 1, y: BUF_GROWING, k: 2, sw: 0 }, d),
        ]
    }
    fn specs(&self, cfg: &Cfg) -> Vec<OpSpec> {
        vec![
            spec("send", 18, cfg.k, 0),
            spec("poll_send", 26, cfg.k, 2),
            spec("drop_send", 5, cfg.k, 0),
            spec("cancel_send", 4, cfg.k, 0),
            spec("receive", 12, cfg.k, 0),
            spec("poll_receive", 22, cfg.k, 2),
            spec("drop_receive", 5, cfg.k, 0),
            spec("try_send", if cfg.x > 0 { 8 } else { 0 }, 0, 0),
            spec("try_receive", 8, 0, 0),
            spec("close", 1, 0, 0),
        ]
    }
    fn run(&self, cfg: &Cfg, ops: &[Op], run: &mut Run) {
        macro_rules! with_lock {
            ($m:ty) => {
                match (cfg.y, cfg.x) {
                    (BUF_ARRAY, 0) => run_m::<$m, ArrayBuf<Z, [Z; 0]>>(cfg, ops, run),
                    (BUF_ARRAY, 1) => run_m::<$m, ArrayBuf<Z, [Z; 1]>>(cfg, ops, run),
                    (BUF_ARRAY, 2) => run_m::<$m, ArrayBuf<Z, [Z; 2]>>(cfg, ops, run),
                    (BUF_ARRAY, _) => run_m::<$m, ArrayBuf<Z, [Z; 3]>>(cfg, ops, run),
                    (BUF_FIXED, _) => run_m::<$m, FixedHeapBuf<Z>>(cfg, ops, run),
                    _ => run_m::<$m, GrowingHeapBuf<Z>>(cfg, ops, run),
                }
            };
        }
        match cfg.flavour {
            FL_LOCAL => with_lock!(Noop),
            _ => with_lock!(CheckedLock),
        }
    }
    fn nontrivial(&self, prop: &str, c: u64) -> bool {
        let b = |i: u32| c & (1 << i) != 0;
        match prop {
            "C08" => b(CL_DELIVERED) && (b(CL_WITHDRAWN) || b(CL_DROPPED_BY_CHANNEL)),
            "C09" => b(CL_DELIVERED) && (b(CL_REFUSED_AT_CAPACITY) || b(CL_PARKED_SENDER_COMPLETED)),
            _ => false,
        }
    }
    fn cfg_desc(&self, cfg: &Cfg) -> String {
        format!(
            "mpmc with zero-sized elements, flavour={} buffer={} capacity={} send/recv slots={}",
            flavour_name(cfg.flavour),
            match cfg.y {
                BUF_ARRAY => "ArrayBuf",
                BUF_FIXED => "FixedHeapBuf",
                _ => "GrowingHeapBuf",
            },
            cfg.x,
            cfg.k
        )
    }
    fn class_names(&self) -> &'static [&'static str] {
        CLASS_NAMES
    }
}

fn next_where<F>(slots: &[Slot<F>], start: u8, pred: impl Fn(&Slot<F>) -> bool) -> Option<usize> {
    let n = slots.len();
    (0..n).map(|d| (start as usize + d) % n).find(|&i| pred(&slots[i]))
}

#[derive(Default)]
struct Counts {
    /// values constructed by the harness
    made: u64,
    /// values the harness got back (refused / cancelled) or received, and dropped itself
    harness_dropped: u64,
    /// sends that reported success (poll -> Ready(Ok) or try_send -> Ok)
    ok: u64,
    /// values handed to a receiver
    received: u64,
    /// sends that can have taken effect: futures polled at least once plus successful try_sends
    effects: u64,
}

fn run_m<M: RawMutex + 'static, A: RingBuf<Item = Z> + 'static>(cfg: &Cfg, ops: &[Op], run: &mut Run) {
    tls::reset_history();
    tls::set_shared_b(cfg.sw == 1);
    Z_DROPS.with(|c| c.set(0));
    let cap = cfg.x as u64;
    let bounded = cfg.y != BUF_GROWING;
    let chan: GenericChannel<M, Z, A> = if cfg.y == BUF_ARRAY && cfg.flavour == FL_LOCAL { GenericChannel::new() } else { GenericChannel::with_capacity(cap as usize) };
    let k = cfg.k as usize;
    let mut send: Vec<Slot<ChannelSendFuture<'_, M, Z>>> = (0..k).map(|i| Slot::new(i as u8)).collect();
    let mut recv: Vec<Slot<ChannelReceiveFuture<'_, M, Z>>> = (0..k).map(|i| Slot::new((k + i) as u8)).collect();
    let mut n = Counts::default();

    macro_rules! take_back {
        ($z:expr) => {{
            drop($z);
            n.harness_dropped += 1;
            run.class(CL_WITHDRAWN);
        }};
    }
    macro_rules! got {
        ($z:expr) => {{
            drop($z);
            n.harness_dropped += 1;
            n.received += 1;
            run.class(CL_DELIVERED);
        }};
    }

    for (i, op) in ops.iter().enumerate() {
        if run.failed() {
            break;
        }
        run.set_step(i);
        run.steps += 1;
        tls::clear_op_log();
        let at_cap_before = bounded && n.ok.saturating_sub(n.received) >= cap;
        match op.code {
            OP_MK_SEND => match next_where(&send, op.a, |s| !s.alive()) {
                Some(s) => {
                    n.made += 1;
                    if let Some(f) = run.call("send()", || chan.send(Z)) {
                        send[s].install(f);
                        run.note(|| format!("send slot {}", s));
                    }
                }
                None => run.noops += 1,
            },
            OP_POLL_SEND => match next_where(&send, op.a, |s| s.pollable()) {
                Some(s) => {
                    let first = !send[s].polled;
                    if first {
                        n.effects += 1;
                    }
                    match send[s].poll(op.b, run) {
                        Some(Poll::Ready(Ok(()))) => {
                            n.ok += 1;
                            if !first {
                                run.class(CL_PARKED_SENDER_COMPLETED);
                            }
                            run.note(|| format!("poll_send slot {} -> Ok", s));
                        }
                        Some(Poll::Ready(Err(e))) => {
                            take_back!(e.0);
                            if first {
                                // the send never took effect
                                n.effects -= 1;
                            }
                            run.note(|| format!("poll_send slot {} -> Err(value)", s));
                        }
                        Some(Poll::Pending) => {
                            if at_cap_before {
                                run.class(CL_REFUSED_AT_CAPACITY);
                            }
                            run.note(|| format!("poll_send slot {} -> Pending", s));
                        }
                        None => {}
                    }
                }
                None => run.noops += 1,
            },
            OP_DROP_SEND => match next_where(&send, op.a, |s| s.alive()) {
                Some(s) => {
                    send[s].drop_fut(run, "drop(send future)");
                    run.note(|| format!("drop_send slot {}", s));
                }
                None => run.noops += 1,
            },
            OP_CANCEL_SEND => match next_where(&send, op.a, |s| s.pollable()) {
                Some(s) => {
                    let fut = send[s].fut.as_mut().unwrap();
                    // `cancel` takes `&mut self`; the future stays where it is
                    let r = run.call("cancel()", || unsafe { fut.as_mut().get_unchecked_mut().cancel() });
                    send[s].cancelled = true;
                    if let Some(Some(z)) = r {
                        take_back!(z);
                    }
                    run.note(|| format!("cancel_send slot {}", s));
                }
                None => run.noops += 1,
            },
            OP_MK_RECV => match next_where(&recv, op.a, |s| !s.alive()) {
                Some(s) => {
                    if let Some(f) = run.call("receive()", || chan.receive()) {
                        recv[s].install(f);
                        run.note(|| format!("receive slot {}", s));
                    }
                }
                None => run.noops += 1,
            },
            OP_POLL_RECV => match next_where(&recv, op.a, |s| s.pollable()) {
                Some(s) => match recv[s].poll(op.b, run) {
                    Some(Poll::Ready(Some(z))) => {
                        got!(z);
                        run.note(|| format!("poll_receive slot {} -> Some", s));
                    }
                    Some(Poll::Ready(None)) => run.note(|| format!("poll_receive slot {} -> None", s)),
                    Some(Poll::Pending) => run.note(|| format!("poll_receive slot {} -> Pending", s)),
                    None => {}
                },
                None => run.noops += 1,
            },
            OP_DROP_RECV => match next_where(&recv, op.a, |s| s.alive()) {
                Some(s) => {
                    recv[s].drop_fut(run, "drop(receive future)");
                    run.note(|| format!("drop_receive slot {}", s));
                }
                None => run.noops += 1,
            },
            OP_TRY_SEND => {
                n.made += 1;
                match run.call("try_send()", || chan.try_send(Z)) {
                    Some(Ok(())) => {
                        n.ok += 1;
                        n.effects += 1;
                        run.note(|| "try_send -> Ok".to_string());
                    }
                    Some(Err(TrySendError::Full(z))) => {
                        if at_cap_before {
                            run.class(CL_REFUSED_AT_CAPACITY);
                        }
                        take_back!(z);
                        run.note(|| "try_send -> Full".to_string());
                    }
                    Some(Err(TrySendError::Closed(z))) => {
                        take_back!(z);
                        run.note(|| "try_send -> Closed".to_string());
                    }
                    None => {}
                }
            }
            OP_TRY_RECV => match run.call("try_receive()", || chan.try_receive()) {
                Some(Ok(z)) => {
                    got!(z);
                    run.note(|| "try_receive -> Ok".to_string());
                }
                Some(Err(TryReceiveError::Empty)) => run.note(|| "try_receive -> Empty".to_string()),
                Some(Err(TryReceiveError::Closed)) => run.note(|| "try_receive -> Closed".to_string()),
                None => {}
            },
            _ => {
                run.call("close()", || chan.close());
                run.note(|| "close".to_string());
            }
        }
        check(&n, cap, bounded, false, run);
        if bounded && n.ok.saturating_sub(n.received) == cap && cap > 0 {
            run.class(CL_AT_CAPACITY);
        }
        if run.want_fp {
            let mut h = H128::new();
            h.u64(n.made - z_drops());
            h.u64(n.ok - n.received.min(n.ok));
            h.u64(n.effects - n.received.min(n.effects));
            for s in send.iter() {
                h.bytes(&[s.alive() as u8, s.polled as u8, s.done as u8, s.cancelled as u8, s.last_w, s.woken() as u8]);
            }
            h.u8(0xfe);
            for s in recv.iter() {
                h.bytes(&[s.alive() as u8, s.polled as u8, s.done as u8, s.last_w, s.woken() as u8]);
            }
            let mut snap = Snapshot::default();
            chan.verif_snapshot(&mut |it| snap.push(it));
            for (name, v) in snap.scalars.iter() {
                h.bytes(name.as_bytes());
                h.u64(*v);
            }
            h.u64(snap.entries.len() as u64);
            for e in snap.entries.iter() {
                h.bytes(&[e.queue, e.state, e.waker.unwrap_or(254)]);
            }
            run.fp = h.finish();
        }
    }

    let fp_end = run.fp;
    if !run.failed() {
        run.set_step(ops.len());
        for s in 0..k {
            if send[s].alive() && !run.failed() {
                send[s].drop_fut(run, "drop(send future)");
            }
            if recv[s].alive() && !run.failed() {
                recv[s].drop_fut(run, "drop(receive future)");
            }
        }
    }
    if !run.failed() {
        drop(send);
        drop(recv);
        let before = z_drops();
        let r = run.call("drop(channel)", move || drop(chan));
        if r.is_some() {
            if z_drops() > before {
                run.class(CL_DROPPED_BY_CHANNEL);
            }
            check(&n, cap, bounded, true, run);
        }
    } else {
        for s in send.iter_mut() {
            s.leak();
        }
        for s in recv.iter_mut() {
            s.leak();
        }
        std::mem::forget(send);
        std::mem::forget(recv);
        std::mem::forget(chan);
    }
    run.fp = fp_end;
}

fn check(n: &Counts, cap: u64, bounded: bool, end: bool, run: &mut Run) {
    let dropped = z_drops();
    if n.received > n.effects {
        run.violate(
            "C08",
            "received-more-than-sent",
            format!("{} zero-sized values were received but only {} sends can have taken effect (polled send futures + successful try_sends)", n.received, n.effects),
        );
        if run.failed() {
            return;
        }
    }
    if dropped > n.made {
        run.violate("C08", "dropped-more-than-made", format!("{} zero-sized values were constructed but {} drops ran", n.made, dropped));
        if run.failed() {
            return;
        }
    }
    if dropped < n.harness_dropped {
        run.violate("C08", "drop-count", format!("the harness itself dropped {} values but only {} drops were counted", n.harness_dropped, dropped));
        if run.failed() {
            return;
        }
    }
    // ok - received is a lower bound of "accepted and not yet received" (a value can be received
    // before its parked sender is told Ok, never the other way round)
    if bounded && n.ok > n.received + cap {
        run.violate(
            "C09",
            if cap == 0 { "no-rendezvous" } else { "over-capacity" },
            format!(
                "{} sends reported success and only {} values were received: {} accepted-but-unreceived values in a channel of capacity {} (zero-sized elements)",
                n.ok,
                n.received,
                n.ok - n.received,
                cap
            ),
        );
        if run.failed() {
            return;
        }
    }
    if end && dropped != n.made {
        run.violate(
            "C08",
            "leak-or-double-drop-at-end",
            format!("after dropping every future and the channel, {} zero-sized values were constructed and {} were dropped", n.made, dropped),
        );
    }
}
