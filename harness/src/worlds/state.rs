//! State broadcast world: C13, the state part of C11, and C01, C17, C18.

use crate::common::lock::{CheckedLock, Noop, PlLock};
use crate::common::payload::{self, Tagged};
use crate::common::*;
use futures_core::future::FusedFuture;
use futures_intrusive::channel::shared as sh;
use futures_intrusive::channel::{CloseStatus, GenericStateBroadcastChannel, StateId, StateReceiveFuture};
use lock_api::RawMutex;
use std::cell::RefCell;
use std::future::Future;
use std::pin::Pin;
use std::task::{Context, Poll};

pub struct StateWorld;

pub const OP_SEND: u8 = 0;
pub const OP_CLOSE: u8 = 1;
pub const OP_MK: u8 = 2;
pub const OP_POLL: u8 = 3;
pub const OP_DROP: u8 = 4;
pub const OP_TRY: u8 = 5;
pub const OP_CLONE_TX: u8 = 6;
pub const OP_DROP_TX: u8 = 7;
pub const OP_CLONE_RX: u8 = 8;
pub const OP_DROP_RX: u8 = 9;
pub const OP_DROP_HELD: u8 = 10;
pub const OP_PROBE: u8 = 11;

pub const CL_TWO_PUBS_FEEDBACK: u32 = 0;
pub const CL_CLOSE_FOLLOWER_BEHIND: u32 = 1;
pub const CL_CLOSE_WITH_PENDING: u32 = 2;
pub const CL_DROP_PENDING_WITH_OTHERS: u32 = 3;
pub const CL_DROP_WOKEN: u32 = 4;
pub const CL_REPOLL_PENDING: u32 = 5;
pub const CL_TERMINATED_SEEN: u32 = 6;
pub const CL_THREE_PENDING_WAKE_ALL: u32 = 7;
pub const CL_HANDLE_OPS_TWO: u32 = 8;
pub const CL_FUTURE_OUTLIVES_HANDLE: u32 = 9;
pub const OP_POLL_RACE: u8 = 12;
pub const CL_PROBE: u32 = 10;
pub const CL_TRY_SOME: u32 = 11;
pub const CL_TRY_NONE_UPTODATE: u32 = 12;
pub const CL_NONE_AFTER_CLOSE: u32 = 13;
pub const CL_LATEST_AFTER_CLOSE: u32 = 14;
pub const CL_SHARED_REPOLL: u32 = 15;
pub const CL_SEND_WAKES_TWO: u32 = 16;
pub const CL_SKIPPED_STATE: u32 = 17;
pub const CL_RACING_SEND: u32 = 18;

const CLASS_NAMES: &[&str] = &[
    "two-publications-with-id-feedback",
    "close-with-follower-one-behind",
    "close-with-pending",
    "drop-pending-with-others",
    "drop-woken",
    "repoll-pending",
    "terminated-seen",
    "three-pending-woken-at-once",
    "two-handle-ops-before-last-drop",
    "future-outlives-its-handle",
    "probe",
    "try_receive-some",
    "try_receive-none-when-up-to-date",
    "none-after-close",
    "latest-state-after-close",
    "shared-future-polled-pending-twice",
    "send-woke-two",
    "receiver-skipped-a-state",
    "poll-racing-with-send",
];

impl World for StateWorld {
    fn id(&self) -> u8 {
        6
    }
    fn shared_wakers(&self) -> bool {
        true
    }
    fn name(&self) -> &'static str {
        "state"
    }
    fn props(&self) -> &'static [&'static str] {
        &["C01", "C11", "C13", "C17", "C18"]
    }
    fn configs(&self, tier: Tier) -> Vec<Cfg> {
        let k = if tier == Tier::Quick { 5 } else { 6 };
        let mut v: Vec<Cfg> = [FL_LOCAL, FL_SYNC, FL_CHECKED, FL_SHARED, FL_SHARED_CHECKED].iter().map(|&flavour| Cfg { flavour, mode: 0, x: 0, y: 0, k, sw: 0 }).collect();
        // mode 1: requested ids also come from another channel (ids ahead of this channel's)
        v.push(Cfg { flavour: FL_LOCAL, mode: 1, x: 0, y: 0, k, sw: 0 });
        v.push(Cfg { flavour: FL_SHARED_CHECKED, mode: 1, x: 0, y: 0, k, sw: 0 });
        // y = 1: polls that race with a send() of another thread
        v.push(Cfg { flavour: FL_CHECKED, mode: 0, x: 0, y: 1, k, sw: 0 });
        v.push(Cfg { flavour: FL_SHARED_CHECKED, mode: 0, x: 0, y: 1, k, sw: 0 });
        v
    }
    fn enum_configs(&self, tier: Tier) -> Vec<(Cfg, usize)> {
        let (k, d) = if tier == Tier::Quick { (2, 9) } else { (2, 12) };
        vec![(Cfg { flavour: FL_CHECKED, mode: 0, x: 0, y: 0, k, sw: 0 }, d), (Cfg { flavour: FL_SHARED_CHECKED, mode: 0, x: 0, y: 0, k, sw: 0 }, d), (Cfg { flavour: FL_CHECKED, mode: 1, x: 0, y: 0, k, sw: 0 }, d - 2)]
    }
    fn specs(&self, cfg: &Cfg) -> Vec<OpSpec> {
        let shared = cfg.flavour >= FL_SHARED;
        let h = if shared { 3 } else { 0 };
        vec![
            spec("send", 14, 0, 0),
            spec("close", if shared { 0 } else { 4 }, 0, 0),
            spec("receive", 20, cfg.k, if cfg.mode == 1 { 4 + FOREIGN as u8 } else { 4 }),
            spec("poll", 40, cfg.k, 2),
            spec("drop", 10, cfg.k, 0),
            spec("try_receive", 8, if cfg.mode == 1 { 4 + FOREIGN as u8 } else { 4 }, 0),
            spec("clone_sender", h, 3, 0),
            spec("drop_sender", h, 3, 0),
            spec("clone_receiver", h, 3, 0),
            spec("drop_receiver", h, 3, 0),
            spec("drop_value", 6, 4, 0),
            spec("probe_after_done", 1, cfg.k, 0),
            // poll while another thread calls send() at the first instant the internal lock is free
            spec("poll_racing_send", if cfg.y == 1 { 12 } else { 0 }, cfg.k, 2),
        ]
    }
    fn run(&self, cfg: &Cfg, ops: &[Op], run: &mut Run) {
        match cfg.flavour {
            FL_LOCAL => run_m::<Noop>(cfg, ops, run),
            FL_SYNC | FL_SHARED => run_m::<PlLock>(cfg, ops, run),
            _ => run_m::<CheckedLock>(cfg, ops, run),
        }
    }
    fn nontrivial(&self, prop: &str, c: u64) -> bool {
        let b = |i: u32| c & (1 << i) != 0;
        match prop {
            "C01" => b(CL_DROP_PENDING_WITH_OTHERS) || b(CL_DROP_WOKEN),
            "C11" => b(CL_CLOSE_WITH_PENDING) || b(CL_HANDLE_OPS_TWO),
            "C13" => b(CL_TWO_PUBS_FEEDBACK) && (b(CL_CLOSE_FOLLOWER_BEHIND) || b(CL_SEND_WAKES_TWO)),
            "C17" => (b(CL_REPOLL_PENDING) && b(CL_TERMINATED_SEEN)) || b(CL_SHARED_REPOLL),
            "C18" => b(CL_THREE_PENDING_WAKE_ALL),
            _ => false,
        }
    }
    fn cfg_desc(&self, cfg: &Cfg) -> String {
        format!("state-broadcast flavour={} slots={}{}", flavour_name(cfg.flavour), cfg.k, if cfg.mode == 1 { " requested ids also from another channel" } else if cfg.y == 1 { " racing-send" } else { "" })
    }
    fn class_names(&self) -> &'static [&'static str] {
        CLASS_NAMES
    }
}

enum Chan<M: RawMutex + 'static> {
    B(GenericStateBroadcastChannel<M, Tagged>),
    S { tx: RefCell<Vec<sh::GenericStateSender<M, Tagged>>>, rx: RefCell<Vec<sh::GenericStateReceiver<M, Tagged>>> },
}

pub enum RFut<'a, M: RawMutex + 'static> {
    B(StateReceiveFuture<'a, M, Tagged>),
    S(sh::StateReceiveFuture<M, Tagged>),
}

impl<'a, M: RawMutex + 'static> Future for RFut<'a, M> {
    type Output = Option<(StateId, Tagged)>;
    fn poll(self: Pin<&mut Self>, cx: &mut Context<'_>) -> Poll<Self::Output> {
        // Safety: structural pinning, the enum is never moved out of its box nor re-assigned.
        unsafe {
            match self.get_unchecked_mut() {
                RFut::B(f) => Pin::new_unchecked(f).poll(cx),
                RFut::S(f) => Pin::new_unchecked(f).poll(cx),
            }
        }
    }
}

impl<'a, M: RawMutex + 'static> RFut<'a, M> {
    fn terminated(&self) -> bool {
        match self {
            RFut::B(f) => f.is_terminated(),
            RFut::S(f) => f.is_terminated(),
        }
    }
}

fn next_where<F>(slots: &[Slot<F>], start: u8, pred: impl Fn(&Slot<F>) -> bool) -> Option<usize> {
    let n = slots.len();
    (0..n).map(|d| (start as usize + d) % n).find(|&i| pred(&slots[i]))
}

struct Model {
    /// payload ids of the publications, in order
    pubs: Vec<u16>,
    /// StateId of each publication once a receiver has reported it
    sids: Vec<Option<StateId>>,
    closed: bool,
    newly_closed_seen: bool,
    /// ids a receiver may pass in: (id, index of the publication it denotes, -1 for StateId::new())
    seen: Vec<(StateId, i32)>,
    tx_count: usize,
    rx_count: usize,
    handle_ops: u32,
    feedback: bool,
    /// ids obtained from another channel (after 1, 2 and 4 publications there); mode 1 only
    foreign: Vec<StateId>,
}

/// number of ids taken from the donor channel
const FOREIGN: usize = 3;
/// slot.num of a request with a foreign id is FOREIGN_BASE + its index
const FOREIGN_BASE: u64 = 1 << 40;

impl Model {
    fn latest(&self) -> i32 {
        self.pubs.len() as i32 - 1
    }
    /// What a requested id (slot.num encoding) is known to denote, as bounds (lo, hi) on a
    /// publication index: every publication <= lo has an id <= the requested one, every
    /// publication > hi has a larger id. Own ids: lo == hi == the publication they came from.
    /// Foreign ids are opaque; they are placed through the public `Ord` against the ids this
    /// channel has reported so far (ids increase strictly, which is checked separately).
    fn bounds(&self, num: u64) -> (i32, i32) {
        if num < FOREIGN_BASE {
            let q = num as i32 - 1;
            return (q, q);
        }
        let x = self.foreign[(num - FOREIGN_BASE) as usize];
        let mut lo = -1;
        let mut hi = i32::MAX;
        for (j, sid) in self.sids.iter().enumerate() {
            if let Some(sid) = sid {
                if *sid <= x {
                    lo = lo.max(j as i32);
                } else {
                    hi = hi.min(j as i32 - 1);
                }
            }
        }
        (lo, hi)
    }
    fn request(&self, arg: u8, foreign_mode: bool) -> (StateId, u64) {
        let n = self.seen.len() + if foreign_mode { self.foreign.len() } else { 0 };
        let i = arg as usize % n;
        if i < self.seen.len() {
            (self.seen[i].0, (self.seen[i].1 + 1) as u64)
        } else {
            (self.foreign[i - self.seen.len()], FOREIGN_BASE + (i - self.seen.len()) as u64)
        }
    }
}

/// Ids of another state broadcast channel after 1, 2 and 4 publications, through the public API.
fn foreign_ids() -> Vec<StateId> {
    let donor: GenericStateBroadcastChannel<Noop, u8> = GenericStateBroadcastChannel::new();
    let mut id = StateId::new();
    let mut out = Vec::new();
    for n in 1..=4 {
        let _ = donor.send(0);
        if let Some((next, _)) = donor.try_receive(id) {
            id = next;
        }
        if n != 3 {
            out.push(id);
        }
    }
    out
}

fn run_m<M: RawMutex + 'static>(cfg: &Cfg, ops: &[Op], run: &mut Run) {
    tls::reset_history();
    tls::set_shared_b(cfg.sw == 1);
    payload::reset();
    let shared = cfg.flavour >= FL_SHARED;
    let chan_owner: Chan<M> = if shared {
        let conv = if std::any::TypeId::of::<M>() == std::any::TypeId::of::<PlLock>() { retype(sh::state_broadcast_channel::<Tagged>()) } else { None };
        let (tx, rx) = conv.unwrap_or_else(sh::generic_state_broadcast_channel::<M, Tagged>);
        Chan::S { tx: RefCell::new(vec![tx]), rx: RefCell::new(vec![rx]) }
    } else {
        Chan::B(GenericStateBroadcastChannel::new())
    };
    let chan = &chan_owner;
    let k = cfg.k as usize;
    // slot.num = index of the publication the requested id denotes, +1 (0 = StateId::new())
    let mut slots: Vec<Slot<RFut<'_, M>>> = (0..k).map(|i| Slot::new(i as u8)).collect();
    let mut held: Vec<Tagged> = Vec::with_capacity(8);
    let mut m = Model { pubs: Vec::new(), sids: Vec::new(), closed: false, newly_closed_seen: false, seen: vec![(StateId::new(), -1)], tx_count: 1, rx_count: 1, handle_ops: 0, feedback: false, foreign: Vec::new() };
    let foreign_mode = cfg.mode == 1;
    if foreign_mode {
        m.foreign = foreign_ids();
        tls::alloc_reset();
    }
    let mut snap = Snapshot::default();
    let mut order = Vec::new();

    macro_rules! monitors {
        () => {{
            if !run.failed() {
                monitors(chan, &m, &slots, &mut snap, &mut order, run);
            }
        }};
    }
    macro_rules! owners {
        () => {
            if shared { m.tx_count + m.rx_count + slots.iter().filter(|s| s.alive() && !s.done).count() } else { 1 }
        };
    }
    macro_rules! keep {
        ($v:expr) => {{
            let v: Tagged = $v;
            if held.len() >= 6 {
                drop(v);
            } else {
                held.push(v);
            }
        }};
    }
    // a state (sid, v) was handed out for a request that denotes publication `q`
    macro_rules! delivered {
        ($sid:expr, $v:expr, $q:expr, $req:expr, $what:expr) => {{
            let sid: StateId = $sid;
            let v: Tagged = $v;
            let num: u64 = $q;
            let (q, q_hi) = m.bounds(num);
            let own = num < FOREIGN_BASE;
            let _ = q_hi;
            let req: StateId = $req;
            let latest = m.latest();
            if latest < 0 {
                run.violate("C13", "state-from-nowhere", format!("{} returned v{} although nothing was published", $what, v.id));
                std::mem::forget(v);
            } else {
                if v.id != m.pubs[latest as usize] {
                    run.violate("C13", "stale-state", format!("{} returned v{} but the most recently published state is v{}", $what, v.id, m.pubs[latest as usize]));
                }
                if q >= latest && m.closed {
                    // C11: after the close a receiver that has seen everything gets None forever
                    run.violate2("C13", "C11", "not-newer-after-close", format!("{} returned a state on a closed channel although the id passed in already denotes the latest publication", $what));
                } else if q >= latest {
                    run.violate("C13", "not-newer", format!("{} returned a state although the id passed in already denotes the latest publication", $what));
                }
                if !(sid > req) {
                    run.violate("C13", "id-not-larger", format!("{} returned id {:?} which is not larger than the id passed in {:?}", $what, sid, req));
                }
                match m.sids[latest as usize] {
                    Some(known) if known != sid => {
                        run.violate("C13", "id-unstable", format!("{} reported publication #{} under id {:?}, earlier it was reported as {:?}", $what, latest, sid, known))
                    }
                    _ => {}
                }
                for j in 0..latest as usize {
                    if let Some(old) = m.sids[j] {
                        if !(old < sid) {
                            run.violate("C13", "id-not-increasing", format!("publication #{} has id {:?} which is not larger than id {:?} of publication #{}", latest, sid, old, j));
                        }
                    }
                }
                m.sids[latest as usize] = Some(sid);
                if own && q + 1 < latest {
                    run.class(CL_SKIPPED_STATE);
                }
                if own && q >= 0 {
                    m.feedback = true;
                }
                if m.feedback && m.pubs.len() >= 2 {
                    run.class(CL_TWO_PUBS_FEEDBACK);
                }
                if m.closed {
                    run.class(CL_LATEST_AFTER_CLOSE);
                }
                if !m.seen.iter().any(|(_, p)| *p == latest) {
                    if m.seen.len() >= 4 {
                        m.seen.remove(1);
                    }
                    m.seen.push((sid, latest));
                }
                keep!(v);
            }
        }};
    }

    // verdict on the result of a send() and its effect on the model
    macro_rules! apply_send {
        ($id:expr, $r:expr, $pend_unwoken:expr) => {{
            let id: u16 = $id;
            let r = $r;
            let pend_unwoken: usize = $pend_unwoken;
                            run.note(|| format!("send(v{}) -> {}", id, if r.is_ok() { "Ok" } else { "Err" }));
                            match r {
                                Ok(()) => {
                                    if m.closed {
                                        run.violate("C11", "send-after-close-accepted", format!("send(v{}) succeeded on a closed channel", id));
                                    }
                                    if pend_unwoken >= 2 {
                                        run.class(CL_SEND_WAKES_TWO);
                                    }
                                    if pend_unwoken >= 3 {
                                        run.class(CL_THREE_PENDING_WAKE_ALL);
                                    }
                                    m.pubs.push(id);
                                    m.sids.push(None);
                                }
                                Err(e) => {
                                    let back = e.0;
                                    if back.id != id {
                                        run.violate("C11", "wrong-value-returned", format!("send(v{}) failed and returned v{}", id, back.id));
                                    }
                                    if !m.closed {
                                        run.violate(
                                            "C11",
                                            "send-rejected-while-open",
                                            format!("send(v{}) was rejected although close() was not called and a sender and a receiver handle are alive", id),
                                        );
                                    }
                                    keep!(back);
                                }
                            }
        }};
    }
    // verdict on the result of polling the receive future in slot $s (against the current model)
    macro_rules! judge_poll {
        ($s:expr, $w:expr, $r:expr, $was_pending:expr) => {{
            let s: usize = $s;
            let w: u8 = $w;
            let was_pending: bool = $was_pending;
            let num = slots[s].num;
            let (q, q_hi) = m.bounds(num);
            let req = if num < FOREIGN_BASE { m.seen.iter().find(|(_, p)| *p == q).map(|(id, _)| *id) } else { Some(m.foreign[(num - FOREIGN_BASE) as usize]) };
            match $r {
                        Some(Poll::Ready(v)) => {
                            run.note(|| format!("poll slot {} waker {} -> Ready({})", s, w, v.as_ref().map(|(sid, t)| format!("{:?}, v{}", sid, t.id)).unwrap_or("None".into())));
                            match v {
                                Some((sid, t)) => {
                                    // the requested id may have been evicted from `seen`; it is still a valid lower bound
                                    let req = req.unwrap_or_else(StateId::new);
                                    delivered!(sid, t, num, req, format!("receive in slot {}", s));
                                }
                                None => {
                                    if !m.closed {
                                        run.violate("C11", "closed-reported-while-open", format!("receive in slot {} completed with None although the channel is open", s));
                                    } else if q_hi < m.latest() {
                                        // C11: "receivers still get all values accepted before the close"
                                        run.violate2("C13", "C11", "latest-state-withheld", format!("receive in slot {} completed with None after close although publication #{} is newer than the requested #{}", s, m.latest(), q_hi));
                                    } else {
                                        run.class(CL_NONE_AFTER_CLOSE);
                                    }
                                }
                            }
                        }
                        Some(Poll::Pending) => {
                            run.note(|| format!("poll slot {} waker {} -> Pending", s, w));
                            if q_hi < m.latest() {
                                run.violate("C13", "newer-state-withheld", format!("receive in slot {} returned Pending although publication #{} is newer than the requested #{}", s, m.latest(), q_hi));
                            } else if m.closed {
                                run.violate2("C11", "C13", "pending-on-closed-channel", format!("receive in slot {} returned Pending on a closed channel", s));
                            }
                            if was_pending {
                                run.class(CL_REPOLL_PENDING);
                                if shared {
                                    run.class(CL_SHARED_REPOLL);
                                }
                            }
                        }
                        None => {}
            }
        }};
    }
    monitors!();
    for (i, op) in ops.iter().enumerate() {
        if run.failed() {
            break;
        }
        run.set_step(i);
        run.steps += 1;
        let op = &recycle(op, &slots, &[OP_MK], OP_POLL, OP_DROP);
        tls::clear_op_log();
        tls::alloc_reset();
        let owners_before = owners!();
        let pending_before = slots.iter().filter(|s| s.pending()).count();
        let pend_unwoken = slots.iter().filter(|s| s.pending() && !s.woken()).count();
        let was_closed = m.closed;
        let mut implicit_close = false;
        match op.code {
            OP_SEND => {
                let can = match chan {
                    Chan::S { tx, .. } => !tx.borrow().is_empty(),
                    _ => true,
                };
                match (can, Tagged::fresh()) {
                    (true, Some(val)) => {
                        let id = val.id;
                        let r = run.call("send()", || match chan {
                            Chan::B(c) => c.send(val),
                            Chan::S { tx, .. } => tx.borrow().last().unwrap().send(val),
                        });
                        if let Some(r) = r {
                            apply_send!(id, r, pend_unwoken);
                        }
                    }
                    _ => run.noops += 1,
                }
            }
            OP_CLOSE => {
                let r = run.call("close()", || match chan {
                    Chan::B(c) => Some(c.close()),
                    _ => None,
                });
                match r {
                    Some(Some(status)) => {
                        run.note(|| format!("close() -> {:?}", status));
                        let newly = status == CloseStatus::NewlyClosed;
                        if newly == m.closed {
                            run.violate("C11", "close-status", format!("close() returned {:?} on a channel that was {}", status, if m.closed { "already closed" } else { "open" }));
                        }
                        if newly && m.newly_closed_seen {
                            run.violate("C11", "close-status", "close() returned NewlyClosed twice".into());
                        }
                        m.newly_closed_seen |= newly;
                        implicit_close = true;
                    }
                    _ => run.noops += 1,
                }
            }
            OP_MK => match next_where(&slots, op.a, |s| !s.alive()) {
                Some(s) => {
                    let (req, num) = m.request(op.b, foreign_mode);
                    let f = run.call("receive()", || match chan {
                        Chan::B(c) => Some(RFut::B(c.receive(req))),
                        Chan::S { rx, .. } => rx.borrow().last().map(|r| RFut::S(r.receive(req))),
                    });
                    match f {
                        Some(Some(f)) => {
                            slots[s].install(f);
                            slots[s].num = num;
                            run.note(|| if num < FOREIGN_BASE { format!("create receive future in slot {} for id of publication #{}", s, num as i32 - 1) } else { format!("create receive future in slot {} for foreign id {:?}", s, req) });
                        }
                        _ => run.noops += 1,
                    }
                }
                None => run.noops += 1,
            },
            OP_POLL => match next_where(&slots, op.a, |s| s.pollable()) {
                Some(s) => {
                    let was_pending = slots[s].pending();
                    let r = slots[s].poll(op.b, run);
                    judge_poll!(s, op.b, r, was_pending);
                }
                None => run.noops += 1,
            },
            OP_POLL_RACE if cfg.y == 1 => match (next_where(&slots, op.a, |s| s.pollable()), Tagged::fresh()) {
                (Some(s), Some(val)) if match chan {
                    Chan::S { tx, .. } => !tx.borrow().is_empty(),
                    _ => true,
                } =>
                {
                    run.class(CL_RACING_SEND);
                    let was_pending = slots[s].pending();
                    let id = val.id;
                    let mut rc: RaceCtx<'_, M> = RaceCtx { chan, val: Some(val), res: None };
                    tls::install_unlock_hook(&mut rc as *mut RaceCtx<'_, M> as usize, race_send::<M>);
                    let r = slots[s].poll(op.b, run);
                    let (fired, relocked) = tls::remove_unlock_hook();
                    if !fired && !run.failed() {
                        // the poll never released the internal lock: the other thread's send comes after it
                        let rcp = &mut rc;
                        run.call("send()", || unsafe { race_send::<M>(rcp as *mut RaceCtx<'_, M> as usize) });
                    }
                    run.note(|| format!("poll slot {} waker {} racing with send(v{}) (send ran inside the poll: {}, poll locked again afterwards: {})", s, op.b, id, fired, relocked));
                    match rc.res.take() {
                        Some(sr) if !run.failed() => {
                            // one critical section per poll: the send came after the poll took effect. A poll
                            // that locked again may have seen the new state: then the send came first.
                            let saw_new = matches!(&r, Some(Poll::Ready(Some((_, t)))) if t.id == id);
                            if relocked && saw_new {
                                apply_send!(id, sr, pend_unwoken);
                                judge_poll!(s, op.b, r, was_pending);
                            } else if relocked && matches!(&r, Some(Poll::Pending)) {
                                // order unknown: no verdict on Pending itself; the monitors below decide whether
                                // the receiver is stranded behind the new state
                                apply_send!(id, sr, pend_unwoken);
                                run.note(|| format!("poll slot {} -> Pending", s));
                            } else {
                                judge_poll!(s, op.b, r, was_pending);
                                apply_send!(id, sr, pend_unwoken);
                            }
                        }
                        _ => {
                            if let Some(v) = rc.val.take() {
                                keep!(v);
                            }
                            if let Some(Poll::Ready(Some((_, t)))) = r {
                                std::mem::forget(t);
                            }
                        }
                    }
                }
                (_, v) => {
                    drop(v);
                    run.noops += 1
                }
            },
            OP_DROP => match next_where(&slots, op.a, |s| s.alive()) {
                Some(s) => {
                    if slots[s].pending() {
                        if pending_before >= 2 {
                            run.class(CL_DROP_PENDING_WITH_OTHERS);
                        }
                        if slots[s].woken() {
                            run.class(CL_DROP_WOKEN);
                        }
                    }
                    slots[s].drop_fut(run, "drop(receive future)");
                    run.note(|| format!("drop slot {}", s));
                }
                None => run.noops += 1,
            },
            OP_TRY => {
                let (req, num) = m.request(op.a, foreign_mode);
                let (q, q_hi) = m.bounds(num);
                let r = run.call("try_receive()", || match chan {
                    Chan::B(c) => Some(c.try_receive(req)),
                    Chan::S { rx, .. } => rx.borrow().last().map(|r| r.try_receive(req)),
                });
                match r {
                    Some(Some(res)) => {
                        run.note(|| format!("try_receive(id of #{}) -> {}", q, res.as_ref().map(|(sid, t)| format!("Some({:?}, v{})", sid, t.id)).unwrap_or("None".into())));
                        match res {
                            Some((sid, t)) => {
                                run.class(CL_TRY_SOME);
                                delivered!(sid, t, num, req, "try_receive".to_string());
                            }
                            None => {
                                if q_hi < m.latest() && m.closed {
                                    run.violate2("C13", "C11", "try_receive-missed-after-close", format!("try_receive returned None on a closed channel although publication #{} is newer than the requested #{}", m.latest(), q_hi));
                                } else if q_hi < m.latest() {
                                    run.violate("C13", "try_receive-missed", format!("try_receive returned None although publication #{} is newer than the requested #{}", m.latest(), q_hi));
                                } else {
                                    run.class(CL_TRY_NONE_UPTODATE);
                                }
                            }
                        }
                    }
                    _ => run.noops += 1,
                }
            }
            OP_CLONE_TX | OP_CLONE_RX => match chan {
                Chan::S { tx, rx } => {
                    let is_tx = op.code == OP_CLONE_TX;
                    let n = if is_tx { tx.borrow().len() } else { rx.borrow().len() };
                    if n == 0 || n >= 3 {
                        run.noops += 1;
                    } else if is_tx {
                        let c = {
                            let v = tx.borrow();
                            let h = &v[op.a as usize % n];
                            run.call("clone(sender)", || h.clone())
                        };
                        if let Some(c) = c {
                            tx.borrow_mut().push(c);
                            m.tx_count += 1;
                            m.handle_ops += 1;
                            run.note(|| "clone sender handle".to_string());
                        }
                    } else {
                        let c = {
                            let v = rx.borrow();
                            let h = &v[op.a as usize % n];
                            run.call("clone(receiver)", || h.clone())
                        };
                        if let Some(c) = c {
                            rx.borrow_mut().push(c);
                            m.rx_count += 1;
                            m.handle_ops += 1;
                            run.note(|| "clone receiver handle".to_string());
                        }
                    }
                }
                _ => run.noops += 1,
            },
            OP_DROP_TX => match chan {
                Chan::S { tx, .. } if !tx.borrow().is_empty() => {
                    let idx = op.a as usize % tx.borrow().len();
                    let h = tx.borrow_mut().remove(idx);
                    if m.handle_ops >= 2 && m.tx_count == 1 {
                        run.class(CL_HANDLE_OPS_TWO);
                    }
                    run.call("drop(sender)", || drop(h));
                    m.tx_count -= 1;
                    m.handle_ops += 1;
                    if m.tx_count == 0 {
                        implicit_close = true;
                    }
                    run.note(|| format!("drop sender handle ({} left)", m.tx_count));
                }
                _ => run.noops += 1,
            },
            OP_DROP_RX => match chan {
                Chan::S { rx, .. } if !rx.borrow().is_empty() => {
                    let idx = op.a as usize % rx.borrow().len();
                    let h = rx.borrow_mut().remove(idx);
                    if m.handle_ops >= 2 && m.rx_count == 1 {
                        run.class(CL_HANDLE_OPS_TWO);
                    }
                    run.call("drop(receiver)", || drop(h));
                    m.rx_count -= 1;
                    m.handle_ops += 1;
                    if m.rx_count == 0 {
                        implicit_close = true;
                    }
                    if slots.iter().any(|s| s.alive() && !s.done) {
                        run.class(CL_FUTURE_OUTLIVES_HANDLE);
                    }
                    run.note(|| format!("drop receiver handle ({} left)", m.rx_count));
                }
                _ => run.noops += 1,
            },
            OP_DROP_HELD => {
                if held.is_empty() {
                    run.noops += 1;
                } else {
                    let idx = op.a as usize % held.len();
                    let v = held.remove(idx);
                    run.note(|| format!("drop held value v{}", v.id));
                    drop(v);
                }
            }
            _ => {
                if !run.allow_probe {
                    run.noops += 1;
                } else {
                    match next_where(&slots, op.a, |s| s.alive() && s.done) {
                        Some(s) => {
                            run.class(CL_PROBE);
                            slots[s].probe_after_done(run, "state receive future");
                            run.note(|| format!("probe slot {} after completion", s));
                        }
                        None => run.noops += 1,
                    }
                }
            }
        }
        if implicit_close && !was_closed {
            m.closed = true;
            if pending_before >= 1 {
                run.class(CL_CLOSE_WITH_PENDING);
            }
            if pend_unwoken >= 3 {
                run.class(CL_THREE_PENDING_WAKE_ALL);
            }
            let latest = m.latest();
            if latest >= 0 && slots.iter().any(|s| s.alive() && !s.done && s.num < FOREIGN_BASE && (s.num as i32 - 1) == latest - 1) {
                run.class(CL_CLOSE_FOLLOWER_BEHIND);
            }
        }
        let (a, d) = tls::alloc_counts();
        let owners_after = owners!();
        let may_free = shared && owners_before > 0 && owners_after == 0;
        if !run.failed() && (a != 0 || (d != 0 && !may_free) || d > 1) {
            run.violate("C18", "allocation", format!("op {:?} performed {} allocations and {} deallocations (last owner released: {})", op, a, d, may_free));
        }
        monitors!();
    }

    let fp_end = run.fp;
    if !run.failed() {
        run.set_step(ops.len());
        for s in 0..k {
            if slots[s].alive() && !run.failed() {
                slots[s].drop_fut(run, "drop(receive future)");
                monitors!();
            }
        }
        if tls::waker_overdrop() && !run.failed() {
            run.violate("C01", "waker-dropped-twice", "a waker was dropped more often than it was cloned".into());
        }
    }
    run.fp = fp_end;
    if run.failed() {
        for s in slots.iter_mut() {
            s.leak();
        }
        while let Some(v) = held.pop() {
            std::mem::forget(v);
        }
        drop(slots);
        std::mem::forget(chan_owner);
        return;
    }
    drop(slots);
    held.clear();
    let ids = payload::ids();
    if let Err(msg) = lib_call(|| drop(chan_owner)) {
        run.violate("C01", "panic", format!("dropping the channel panicked: {}", msg));
        if run.failed() {
            return;
        }
    }
    for id in 0..ids as u16 {
        let live = payload::live(id);
        if live != 0 {
            run.violate(
                "C13",
                "value-lifecycle",
                format!("value v{}: {} clones, {} drops after the channel and all futures are gone ({} live instances)", id, payload::clones(id), payload::drops(id), live),
            );
            if run.failed() {
                return;
            }
        }
    }
}

/// The send() of another thread that races with a poll (`tls::install_unlock_hook`).
struct RaceCtx<'a, M: RawMutex + 'static> {
    chan: &'a Chan<M>,
    val: Option<Tagged>,
    res: Option<Result<(), futures_intrusive::channel::ChannelSendError<Tagged>>>,
}

unsafe fn race_send<M: RawMutex + 'static>(ctx: usize) {
    let rc = &mut *(ctx as *mut RaceCtx<'static, M>);
    if let Some(val) = rc.val.take() {
        rc.res = Some(match rc.chan {
            Chan::B(c) => c.send(val),
            Chan::S { tx, .. } => tx.borrow().last().unwrap().send(val),
        });
    }
}

fn monitors<M: RawMutex + 'static>(chan: &Chan<M>, m: &Model, slots: &[Slot<RFut<'_, M>>], snap: &mut Snapshot, order: &mut Vec<(u8, u8, u8, u8, u64)>, run: &mut Run) {
    // no stranding: a pending receiver that can make progress has been woken
    for (i, s) in slots.iter().enumerate() {
        if s.pending() && !s.woken() {
            let (_, q) = m.bounds(s.num);
            if q < m.latest() {
                run.violate("C13", "stranded-behind", format!("slot {} waits for something newer than publication #{}, publication #{} exists, and it has not been woken through its latest waker", i, q, m.latest()));
                if run.failed() {
                    return;
                }
            }
            if m.closed {
                run.violate2("C11", "C13", "not-woken-after-close", format!("slot {} is pending on a closed channel and has not been woken through its latest waker", i));
                if run.failed() {
                    return;
                }
            }
        }
    }
    for id in m.pubs.iter() {
        if payload::live(*id) < 0 {
            run.violate("C13", "value-lifecycle", format!("value v{} was dropped more often than it was created and cloned", id));
            if run.failed() {
                return;
            }
        }
    }
    for (i, s) in slots.iter().enumerate() {
        if let Some(f) = s.fut.as_ref() {
            let t = f.terminated();
            if t {
                run.class(CL_TERMINATED_SEEN);
            }
            if t != s.done {
                run.violate("C17", "is_terminated-mismatch", format!("slot {}: is_terminated() == {} but completed == {}", i, t, s.done));
                if run.failed() {
                    return;
                }
            }
        }
    }
    snap.clear();
    let mut have = true;
    match chan {
        Chan::B(c) => c.verif_snapshot(&mut |it| snap.push(it)),
        Chan::S { tx, rx } => {
            if let Some(t) = tx.borrow().first() {
                t.verif_snapshot(&mut |it| snap.push(it))
            } else if let Some(r) = rx.borrow().first() {
                r.verif_snapshot(&mut |it| snap.push(it))
            } else {
                have = false
            }
        }
    }
    order.clear();
    if have {
        let views: Views = slots
            .iter()
            .enumerate()
            .map(|(i, s)| SlotView { queue: 0, idx: i as u8, range: s.range(), pending: s.pending(), woken: s.woken() })
            .collect();
        check_list_queues(snap, &[0], &views, run, order, "C13");
    }
    if run.want_fp {
        let mut h = H128::new();
        let latest = m.latest();
        h.bytes(&[m.closed as u8, m.tx_count as u8, m.rx_count as u8, have as u8, (latest >= 0) as u8, m.feedback as u8]);
        // requested publications relative to the latest one (0 = up to date, 1 = one behind, 2 = more)
        let rel = |q: i32| (latest - q).clamp(0, 2) as u8;
        for s in slots {
            h.bytes(&[s.alive() as u8, s.polled as u8, s.done as u8, s.last_w, s.woken() as u8, if s.alive() { rel(m.bounds(s.num).0) } else { 9 }, if s.alive() { rel(m.bounds(s.num).1.min(latest + 3)) } else { 9 }, if s.alive() && s.num >= FOREIGN_BASE { (s.num - FOREIGN_BASE) as u8 + 1 } else { 0 }]);
        }
        for (_, p) in m.seen.iter() {
            h.u8(rel(*p));
        }
        h.u8(0xfd);
        for o in order.iter() {
            h.bytes(&[o.0, o.1, o.2, o.3]);
        }
        run.fp = h.finish();
    }
}
