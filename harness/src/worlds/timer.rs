//! Timer world: C15 plus the cross-cutting C01, C17, C18.

use crate::common::lock::{CheckedLock, Noop, PlLock};
use crate::common::*;
use futures_core::future::FusedFuture;
use futures_intrusive::timer::{Clock, GenericTimerService, LocalTimer, LocalTimerFuture, MockClock, Timer, TimerFuture};
use lock_api::RawMutex;
use std::future::Future;
use std::pin::Pin;
use std::task::{Context, Poll};
use std::time::Duration;

pub struct TimerWorld;

pub const OP_DEADLINE: u8 = 0;
pub const OP_DELAY: u8 = 1;
pub const OP_POLL: u8 = 2;
pub const OP_DROP: u8 = 3;
pub const OP_ADVANCE: u8 = 4;
pub const OP_CHECK: u8 = 5;
pub const OP_NEXT: u8 = 6;
pub const OP_PROBE: u8 = 7;

pub const CL_THREE_REGISTERED: u32 = 0;
pub const CL_DUPLICATE_DEADLINE: u32 = 1;
pub const CL_REMOVE_NON_MIN: u32 = 2;
pub const CL_PARTIAL_EXPIRY: u32 = 3;
pub const CL_DROP_PENDING_WITH_OTHERS: u32 = 4;
pub const CL_DROP_WOKEN: u32 = 5;
pub const CL_REPOLL_PENDING: u32 = 6;
pub const CL_TERMINATED_SEEN: u32 = 7;
pub const CL_MULTI_EXPIRY: u32 = 8;
pub const CL_SATURATED: u32 = 9;
pub const CL_PROBE: u32 = 10;
pub const CL_INNER_REMOVE: u32 = 11;
pub const CL_WAKER_SWAPPED_EXPIRY: u32 = 12;
pub const CL_IMMEDIATE: u32 = 13;

const CLASS_NAMES: &[&str] = &[
    "three-registered",
    "duplicate-deadline",
    "remove-non-minimum",
    "partial-expiry",
    "drop-pending-with-others",
    "drop-woken",
    "repoll-pending",
    "terminated-seen",
    "expiry-of-three-at-once",
    "delay-saturated",
    "probe",
    "remove-inner-heap-node-with-children",
    "waker-swapped-before-expiry",
    "immediately-ready",
];

/// deadline tables: x = 0 small (enumeration), x = 1 with edge values
const DEADLINES_SMALL: [u64; 3] = [1, 2, 3];
const DEADLINES_WIDE: [u64; 12] = [0, 1, 2, 3, 5, 8, 13, 100, 1 << 63, u64::MAX - 1, u64::MAX, 2];
const ADVANCES_SMALL: [u64; 2] = [1, 2];
const ADVANCES_WIDE: [u64; 16] = [1, 1, 1, 1, 2, 2, 2, 3, 3, 5, 10, 90, 1 << 62, 1, 2, u64::MAX];

fn delays() -> [Duration; 14] {
    [
        Duration::from_millis(0),
        Duration::from_millis(1),
        Duration::from_millis(2),
        Duration::from_millis(3),
        Duration::from_millis(10),
        Duration::from_micros(999),
        Duration::from_micros(1500),
        Duration::from_millis(u64::MAX - 1),
        Duration::from_millis(u64::MAX),
        Duration::MAX,
        // more than u64::MAX milliseconds, not a multiple that truncates to u64::MAX
        Duration::from_secs(1 << 61),
        Duration::from_secs(u64::MAX / 1000 + 5),
        Duration::from_millis(u64::MAX).saturating_add(Duration::from_millis(301)),
        Duration::from_secs(u64::MAX),
    ]
}

struct TlsClock;
impl Clock for TlsClock {
    fn now(&self) -> u64 {
        tls::clock_get()
    }
}
static TLS_CLOCK: TlsClock = TlsClock;

thread_local! {
    static MOCK: &'static MockClock = Box::leak(Box::new(MockClock::new()));
}

impl World for TimerWorld {
    fn id(&self) -> u8 {
        4
    }
    fn shared_wakers(&self) -> bool {
        true
    }
    fn name(&self) -> &'static str {
        "timer"
    }
    fn props(&self) -> &'static [&'static str] {
        &["C01", "C15", "C17", "C18"]
    }
    fn configs(&self, tier: Tier) -> Vec<Cfg> {
        let k = if tier == Tier::Quick { 6 } else { 8 };
        let mut v = Vec::new();
        // flavour: service lock; mode: 0 = LocalTimer entry points, 1 = Timer entry points;
        // x: deadline table; y: 0 = harness clock (full u64 range), 1 = MockClock
        for (flavour, mode) in [(FL_LOCAL, 0u8), (FL_SYNC, 0), (FL_SYNC, 1), (FL_CHECKED, 0), (FL_CHECKED, 1)] {
            for y in [0u8, 1] {
                v.push(Cfg { flavour, mode, x: 1, y, k, sw: 0 });
            }
        }
        v.push(Cfg { flavour: FL_CHECKED, mode: 0, x: 0, y: 0, k, sw: 0 });
        v
    }
    fn enum_configs(&self, tier: Tier) -> Vec<(Cfg, usize)> {
        let k = if tier == Tier::Quick { 3 } else { 4 };
        vec![(Cfg { flavour: FL_CHECKED, mode: 0, x: 0, y: 0, k, sw: 0 }, 200)]
    }
    fn specs(&self, cfg: &Cfg) -> Vec<OpSpec> {
        let small = cfg.x == 0;
        vec![
            spec("deadline", 22, cfg.k, if small { 3 } else { 12 }),
            spec("delay", if small { 0 } else { 8 }, cfg.k, 14),
            spec("poll", 36, cfg.k, 2),
            spec("drop", 10, cfg.k, 0),
            spec("advance", 12, if small { 2 } else { 16 }, 0),
            spec("check_expirations", 12, 0, 0),
            spec("next_expiration", 2, 0, 0),
            spec("probe_after_done", 1, cfg.k, 0),
        ]
    }
    fn run(&self, cfg: &Cfg, ops: &[Op], run: &mut Run) {
        match (cfg.flavour, cfg.mode) {
            (FL_LOCAL, _) => run_local::<Noop>(cfg, ops, run),
            (FL_SYNC, 0) => run_local::<PlLock>(cfg, ops, run),
            (FL_SYNC, _) => run_sync::<PlLock>(cfg, ops, run),
            (_, 0) => run_local::<CheckedLock>(cfg, ops, run),
            _ => run_sync::<CheckedLock>(cfg, ops, run),
        }
    }
    fn nontrivial(&self, prop: &str, c: u64) -> bool {
        let b = |i: u32| c & (1 << i) != 0;
        match prop {
            "C01" => b(CL_DROP_PENDING_WITH_OTHERS) || b(CL_DROP_WOKEN),
            "C15" => b(CL_THREE_REGISTERED) && b(CL_DUPLICATE_DEADLINE) && b(CL_REMOVE_NON_MIN) && b(CL_PARTIAL_EXPIRY),
            "C17" => b(CL_REPOLL_PENDING) && b(CL_TERMINATED_SEEN),
            "C18" => b(CL_THREE_REGISTERED) && b(CL_MULTI_EXPIRY),
            _ => false,
        }
    }
    fn cfg_desc(&self, cfg: &Cfg) -> String {
        format!(
            "timer service_lock={} entry={} deadlines={} clock={} slots={}",
            flavour_name(cfg.flavour),
            if cfg.mode == 0 { "LocalTimer" } else { "Timer" },
            if cfg.x == 0 { "{1,2,3}" } else { "wide+edge" },
            if cfg.y == 0 { "harness(u64)" } else { "MockClock" },
            cfg.k
        )
    }
    fn class_names(&self) -> &'static [&'static str] {
        CLASS_NAMES
    }
}

/// Either entry point's future.
pub enum TFut<'a> {
    L(LocalTimerFuture<'a>),
    T(TimerFuture<'a>),
}

impl<'a> Future for TFut<'a> {
    type Output = ();
    fn poll(self: Pin<&mut Self>, cx: &mut Context<'_>) -> Poll<()> {
        // Safety: structural pinning, the enum is never moved out of its box nor re-assigned.
        unsafe {
            match self.get_unchecked_mut() {
                TFut::L(f) => Pin::new_unchecked(f).poll(cx),
                TFut::T(f) => Pin::new_unchecked(f).poll(cx),
            }
        }
    }
}

impl<'a> TFut<'a> {
    fn terminated(&self) -> bool {
        match self {
            TFut::L(f) => f.is_terminated(),
            TFut::T(f) => f.is_terminated(),
        }
    }
}

fn run_local<M: RawMutex>(cfg: &Cfg, ops: &[Op], run: &mut Run) {
    run_any::<M>(cfg, ops, run, &|svc, d| TFut::L(LocalTimer::deadline(svc, d)), &|svc, d| TFut::L(LocalTimer::delay(svc, d)))
}

fn run_sync<M: RawMutex + Sync>(cfg: &Cfg, ops: &[Op], run: &mut Run) {
    run_any::<M>(cfg, ops, run, &|svc, d| TFut::T(Timer::deadline(svc, d)), &|svc, d| TFut::T(Timer::delay(svc, d)))
}

fn next_where<F>(slots: &[Slot<F>], start: u8, pred: impl Fn(&Slot<F>) -> bool) -> Option<usize> {
    let n = slots.len();
    (0..n).map(|d| (start as usize + d) % n).find(|&i| pred(&slots[i]))
}

type MkDeadline<M> = dyn for<'a> Fn(&'a GenericTimerService<M>, u64) -> TFut<'a>;
type MkDelay<M> = dyn for<'a> Fn(&'a GenericTimerService<M>, Duration) -> TFut<'a>;

fn run_any<M: RawMutex>(cfg: &Cfg, ops: &[Op], run: &mut Run, mk_deadline: &MkDeadline<M>, mk_delay: &MkDelay<M>) {
    tls::reset_history();
    tls::set_shared_b(cfg.sw == 1);
    // a panic of the timer (its pairing heap asserts its own link consistency in debug builds)
    // on a contract respecting history means the heap of registered deadlines is corrupt: without
    // the assertion, registered timers are lost or expire out of order
    run.panic_also = Some(("C15", ""));
    let use_mock = cfg.y == 1;
    let mock: &'static MockClock = MOCK.with(|m| *m);
    mock.set_time(0);
    let clock: &'static dyn Clock = if use_mock { mock } else { &TLS_CLOCK };
    let set_clock = |v: u64| {
        if use_mock {
            mock.set_time(v)
        } else {
            tls::clock_set(v)
        }
    };
    let mut now: u64 = 0;
    let svc: GenericTimerService<M> = GenericTimerService::new(clock);
    let k = cfg.k as usize;
    // slot.num = deadline; slot.flag = expired (a check_expirations observed now >= deadline)
    let mut slots: Vec<Slot<TFut<'_>>> = (0..k).map(|i| Slot::new(i as u8)).collect();
    let mut swapped = vec![false; k];
    let mut snap = Snapshot::default();
    let mut order = Vec::new();
    let dl_table: &[u64] = if cfg.x == 0 { &DEADLINES_SMALL } else { &DEADLINES_WIDE };
    let adv_table: &[u64] = if cfg.x == 0 { &ADVANCES_SMALL } else { &ADVANCES_WIDE };
    let delay_table = delays();

    macro_rules! monitors {
        () => {{
            if !run.failed() {
                monitors(&svc, &slots, &mut snap, &mut order, run);
            }
        }};
    }

    monitors!();
    for (i, op) in ops.iter().enumerate() {
        if run.failed() {
            break;
        }
        run.set_step(i);
        run.steps += 1;
        let op = &recycle(op, &slots, &[OP_DEADLINE, OP_DELAY], OP_POLL, OP_DROP);
        tls::clear_op_log();
        tls::alloc_reset();
        let registered: Vec<usize> = (0..k).filter(|&j| slots[j].pending() && !slots[j].flag).collect();
        match op.code {
            OP_DEADLINE => match next_where(&slots, op.a, |s| !s.alive()) {
                Some(s) => {
                    let d = dl_table[op.b as usize % dl_table.len()];
                    if let Some(f) = run.call("deadline()", || mk_deadline(&svc, d)) {
                        slots[s].install(f);
                        slots[s].num = d;
                        swapped[s] = false;
                        run.note(|| format!("create slot {} deadline({})", s, d));
                    }
                }
                None => run.noops += 1,
            },
            OP_DELAY => match next_where(&slots, op.a, |s| !s.alive()) {
                Some(s) => {
                    let dur = delay_table[op.b as usize % delay_table.len()];
                    let ms = dur.as_millis().min(u64::MAX as u128) as u64;
                    let d = now.saturating_add(ms);
                    if now.checked_add(ms).is_none() {
                        run.class(CL_SATURATED);
                    }
                    if let Some(f) = run.call("delay()", || mk_delay(&svc, dur)) {
                        slots[s].install(f);
                        slots[s].num = d;
                        swapped[s] = false;
                        run.note(|| format!("create slot {} delay({:?}) at now={} => deadline {}", s, dur, now, d));
                    }
                }
                None => run.noops += 1,
            },
            OP_POLL => match next_where(&slots, op.a, |s| s.pollable()) {
                Some(s) => {
                    let first = !slots[s].polled;
                    let prev_w = slots[s].last_w;
                    let d = slots[s].num;
                    let predict_ready = if first { now >= d } else { slots[s].flag };
                    match slots[s].poll(op.b, run) {
                        Some(Poll::Ready(())) => {
                            run.note(|| format!("poll slot {} waker {} -> Ready (now={}, deadline={})", s, op.b, now, d));
                            if first {
                                run.class(CL_IMMEDIATE);
                            }
                            if !predict_ready {
                                run.violate(
                                    "C15",
                                    if now < d { "early" } else { "completed-without-check" },
                                    format!(
                                        "slot {} (deadline {}) completed at clock {} {}",
                                        s,
                                        d,
                                        now,
                                        if now < d { "- before its deadline" } else { "although no check_expirations() call has observed clock >= deadline since it registered" }
                                    ),
                                );
                            }
                        }
                        Some(Poll::Pending) => {
                            run.note(|| format!("poll slot {} waker {} -> Pending (now={}, deadline={})", s, op.b, now, d));
                            if predict_ready {
                                run.violate(
                                    "C15",
                                    "due-but-pending",
                                    format!(
                                        "slot {} (deadline {}) returned Pending at clock {} although {}",
                                        s,
                                        d,
                                        now,
                                        if first { "the clock has already reached the deadline at its first poll" } else { "a check_expirations() call observed clock >= deadline" }
                                    ),
                                );
                            }
                            if !first {
                                run.class(CL_REPOLL_PENDING);
                                if prev_w != op.b {
                                    swapped[s] = true;
                                }
                            }
                        }
                        None => {}
                    }
                }
                None => run.noops += 1,
            },
            OP_DROP => match next_where(&slots, op.a, |s| s.alive()) {
                Some(s) => {
                    if slots[s].pending() {
                        if slots.iter().filter(|x| x.pending()).count() >= 2 {
                            run.class(CL_DROP_PENDING_WITH_OTHERS);
                        }
                        if slots[s].woken() {
                            run.class(CL_DROP_WOKEN);
                        }
                        if !slots[s].flag {
                            let min = registered.iter().map(|&j| slots[j].num).min().unwrap_or(u64::MAX);
                            if slots[s].num > min {
                                run.class(CL_REMOVE_NON_MIN);
                            }
                            // inner node with >= 2 children according to the last snapshot
                            if let Some((lo, hi)) = slots[s].range() {
                                if let Some(e) = snap.entries.iter().find(|e| e.addr >= lo && e.addr < hi) {
                                    let children = snap.entries.iter().filter(|c| c.links[0] == e.addr).count();
                                    if e.links[0] != 0 && children >= 2 {
                                        run.class(CL_INNER_REMOVE);
                                    }
                                }
                            }
                        }
                    }
                    slots[s].drop_fut(run, "drop(timer future)");
                    run.note(|| format!("drop slot {}", s));
                }
                None => run.noops += 1,
            },
            OP_ADVANCE => {
                let a = adv_table[op.a as usize % adv_table.len()];
                now = now.saturating_add(a);
                set_clock(now);
                run.note(|| format!("clock -> {}", now));
            }
            OP_CHECK => {
                let due: Vec<usize> = registered.iter().copied().filter(|&j| now >= slots[j].num).collect();
                if !due.is_empty() && due.len() < registered.len() {
                    run.class(CL_PARTIAL_EXPIRY);
                }
                if due.len() >= 3 {
                    run.class(CL_MULTI_EXPIRY);
                }
                if due.iter().any(|&j| swapped[j]) {
                    run.class(CL_WAKER_SWAPPED_EXPIRY);
                }
                run.call("check_expirations()", || svc.check_expirations());
                run.note(|| format!("check_expirations at now={} (due: {:?})", now, due));
                if !run.failed() {
                    // the wake log gains exactly the due registered slots, each through its
                    // latest waker, in non-decreasing deadline order
                    let log = tls::op_log();
                    let expect: Vec<u8> = due.iter().map(|&j| slots[j].waker_id() as u8).collect();
                    let mut sorted_log = log.clone();
                    sorted_log.sort_unstable();
                    let mut sorted_expect = expect.clone();
                    sorted_expect.sort_unstable();
                    if tls::shared_b() {
                        // several due futures of one task: how often the shared waker fires is open
                        sorted_log.dedup();
                        sorted_expect.dedup();
                    }
                    if sorted_log != sorted_expect {
                        let missed: Vec<u8> = sorted_expect.iter().copied().filter(|w| !sorted_log.contains(w)).collect();
                        run.violate(
                            "C15",
                            if !missed.is_empty() { "due-not-woken" } else { "woke-not-due" },
                            format!(
                                "check_expirations() at clock {} woke wakers {:?} (waker id = slot*2+variant) but the due registered futures with their latest wakers are {:?}",
                                now, log, expect
                            ),
                        );
                    } else if !log.iter().any(|w| *w as usize == tls::SHARED_WAKER) {
                        // (a wake through the shared waker cannot be attributed to one future)
                        let dls: Vec<u64> = log.iter().map(|w| slots[(*w / 2) as usize].num).collect();
                        if dls.windows(2).any(|p| p[0] > p[1]) {
                            run.violate("C15", "wake-order", format!("check_expirations() woke deadlines in the order {:?}", dls));
                        }
                    }
                    for &j in &due {
                        slots[j].flag = true;
                    }
                }
            }
            OP_NEXT => {
                run.call("next_expiration()", || svc.next_expiration());
            }
            _ => {
                if !run.allow_probe {
                    run.noops += 1;
                } else {
                    match next_where(&slots, op.a, |s| s.alive() && s.done) {
                        Some(s) => {
                            run.class(CL_PROBE);
                            slots[s].probe_after_done(run, "timer future");
                            run.note(|| format!("probe slot {} after completion", s));
                        }
                        None => run.noops += 1,
                    }
                }
            }
        }
        let (a, d) = tls::alloc_counts();
        if (a, d) != (0, 0) && !run.failed() {
            run.violate("C18", "allocation", format!("op {:?} performed {} allocations and {} deallocations", op, a, d));
        }
        let reg: Vec<u64> = slots.iter().filter(|s| s.pending() && !s.flag).map(|s| s.num).collect();
        if reg.len() >= 3 {
            run.class(CL_THREE_REGISTERED);
        }
        if reg.iter().enumerate().any(|(a, x)| reg.iter().skip(a + 1).any(|y| x == y)) {
            run.class(CL_DUPLICATE_DEADLINE);
        }
        monitors!();
    }

    let fp_end = run.fp;
    if !run.failed() {
        run.set_step(ops.len());
        for s in 0..k {
            if slots[s].alive() && !run.failed() {
                slots[s].drop_fut(run, "drop(timer future)");
                monitors!();
            }
        }
        if tls::waker_overdrop() && !run.failed() {
            run.violate("C01", "waker-dropped-twice", "a waker was dropped more often than it was cloned".into());
        }
    }
    run.fp = fp_end;
    if run.want_fp {
        // the clock is part of the joint state; distances to the (small) deadlines matter only up to 4
        let mut h = H128::new();
        h.u64(run.fp as u64);
        h.u64((run.fp >> 64) as u64);
        h.u64(now.min(4));
        run.fp = h.finish();
    }
    if run.failed() {
        for s in slots.iter_mut() {
            s.leak();
        }
    }
}

fn monitors<M: RawMutex>(svc: &GenericTimerService<M>, slots: &[Slot<TFut<'_>>], snap: &mut Snapshot, order: &mut Vec<(u8, u8, u8, u8, u64)>, run: &mut Run) {
    // next_expiration() == smallest deadline among registered, not expired, not dropped futures
    let model_min = slots.iter().filter(|s| s.pending() && !s.flag).map(|s| s.num).min();
    let got = svc.next_expiration();
    if got != model_min {
        run.violate("C15", "next_expiration", format!("next_expiration() == {:?} but the smallest registered deadline is {:?}", got, model_min));
        if run.failed() {
            return;
        }
    }
    // an expired future has been woken through its latest waker
    for (i, s) in slots.iter().enumerate() {
        if s.pending() && s.flag && !s.woken() {
            run.violate("C15", "expired-not-woken", format!("slot {} expired and holds no wake-up through its latest waker", i));
            if run.failed() {
                return;
            }
        }
    }
    for (i, s) in slots.iter().enumerate() {
        if let Some(f) = s.fut.as_ref() {
            let t = f.terminated();
            if t {
                run.class(CL_TERMINATED_SEEN);
            }
            if t != s.done {
                run.violate("C17", "is_terminated-mismatch", format!("slot {}: is_terminated() == {} but completed == {}", i, t, s.done));
                if run.failed() {
                    return;
                }
            }
        }
    }
    snap.clear();
    svc.verif_snapshot(&mut |it| snap.push(it));
    let views: Views = slots
        .iter()
        .enumerate()
        .map(|(i, s)| SlotView { queue: 0, idx: i as u8, range: s.range(), pending: s.pending(), woken: s.woken() })
        .collect();
    check_heap_queue(snap, &views, run, order, "C15");
    if run.want_fp {
        let mut h = H128::new();
        for s in slots {
            h.bytes(&[s.alive() as u8, s.polled as u8, s.done as u8, s.last_w, s.woken() as u8, s.flag as u8]);
            h.u64(if s.alive() { s.num } else { 0 });
        }
        for o in order.iter() {
            h.bytes(&[o.0, o.1, o.2, o.3]);
            h.u64(o.4);
        }
        run.fp = h.finish();
    }
}
