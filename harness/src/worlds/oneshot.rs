//! Oneshot and oneshot-broadcast world: C12, the oneshot part of C11, and C01, C17, C18.

use crate::common::lock::{CheckedLock, Noop, PlLock};
use crate::common::payload::{self, Tagged};
use crate::common::*;
use futures_core::future::FusedFuture;
use futures_intrusive::channel::shared as sh;
use futures_intrusive::channel::{ChannelReceiveFuture, CloseStatus, GenericOneshotBroadcastChannel, GenericOneshotChannel};
use lock_api::RawMutex;
use std::cell::RefCell;
use std::future::Future;
use std::pin::Pin;
use std::task::{Context, Poll};

pub struct OneshotWorld;

pub const OP_SEND: u8 = 0;
pub const OP_CLOSE: u8 = 1;
pub const OP_MK: u8 = 2;
pub const OP_POLL: u8 = 3;
pub const OP_DROP: u8 = 4;
pub const OP_DROP_TX: u8 = 5;
pub const OP_CLONE_RX: u8 = 6;
pub const OP_DROP_RX: u8 = 7;
pub const OP_DROP_HELD: u8 = 8;
pub const OP_PROBE: u8 = 9;
pub const OP_POLL_RACE: u8 = 10;

pub const CL_TWO_PENDING_AT_SEND: u32 = 0;
pub const CL_TWO_PENDING_AT_CLOSE: u32 = 1;
pub const CL_RECV_AFTER_SEND: u32 = 2;
pub const CL_SECOND_SEND: u32 = 3;
pub const CL_DROP_PENDING_WITH_OTHERS: u32 = 4;
pub const CL_DROP_WOKEN: u32 = 5;
pub const CL_REPOLL_PENDING: u32 = 6;
pub const CL_TERMINATED_SEEN: u32 = 7;
pub const CL_THREE_PENDING_WAKE_ALL: u32 = 8;
pub const CL_HANDLE_OPS_TWO: u32 = 9;
pub const CL_CLOSE_WITH_PENDING: u32 = 10;
pub const CL_FUTURE_OUTLIVES_HANDLE: u32 = 11;
pub const CL_PROBE: u32 = 12;
pub const CL_BROADCAST: u32 = 13;
pub const CL_TWO_VALUES_DELIVERED: u32 = 14;
pub const CL_SHARED_REPOLL: u32 = 15;
pub const CL_LOSER_NONE: u32 = 16;
pub const CL_WINDOW_REACTION: u32 = 17;
pub const CL_RACING_SEND: u32 = 18;

const CLASS_NAMES: &[&str] = &[
    "two-pending-at-send",
    "two-pending-at-close",
    "receive-started-after-send",
    "second-send",
    "drop-pending-with-others",
    "drop-woken",
    "repoll-pending",
    "terminated-seen",
    "three-pending-woken-at-once",
    "two-handle-ops-before-last-drop",
    "close-with-pending",
    "future-outlives-its-handle",
    "probe",
    "broadcast",
    "two-receivers-got-the-value",
    "shared-future-polled-pending-twice",
    "competing-receiver-got-none",
    "acted-inside-the-window-after-unlock",
    "poll-racing-with-send",
];

impl World for OneshotWorld {
    fn id(&self) -> u8 {
        5
    }
    fn shared_wakers(&self) -> bool {
        true
    }
    fn name(&self) -> &'static str {
        "oneshot"
    }
    fn props(&self) -> &'static [&'static str] {
        &["C01", "C11", "C12", "C17", "C18"]
    }
    fn configs(&self, tier: Tier) -> Vec<Cfg> {
        let k = if tier == Tier::Quick { 5 } else { 6 };
        let mut v = Vec::new();
        for flavour in [FL_LOCAL, FL_SYNC, FL_CHECKED, FL_SHARED, FL_SHARED_CHECKED] {
            for mode in [0u8, 1] {
                v.push(Cfg { flavour, mode, x: 0, y: 0, k, sw: 0 });
            }
        }
        // "second thread in the window" (y = 1: the woken future is polled, y = 2: dropped, from
        // inside wake() whenever the wake-up arrives while the internal lock is free)
        for flavour in [FL_CHECKED, FL_SHARED_CHECKED] {
            for mode in [0u8, 1] {
                for y in [1u8, 2, 3] {
                    v.push(Cfg { flavour, mode, x: 0, y, k, sw: 0 });
                }
            }
        }
        v
    }
    fn enum_configs(&self, tier: Tier) -> Vec<(Cfg, usize)> {
        let k = 3;
        let _ = tier;
        let mut v = Vec::new();
        for flavour in [FL_CHECKED, FL_SHARED_CHECKED] {
            for mode in [0u8, 1] {
                v.push((Cfg { flavour, mode, x: 0, y: 0, k, sw: 0 }, 200));
            }
        }
        v
    }
    fn specs(&self, cfg: &Cfg) -> Vec<OpSpec> {
        let shared = cfg.flavour >= FL_SHARED;
        let bc = cfg.mode == 1;
        vec![
            spec("send", 8, 0, 0),
            spec("close", if shared { 0 } else { 5 }, 0, 0),
            spec("receive", 20, cfg.k, 3),
            spec("poll", 40, cfg.k, 2),
            spec("drop", 10, cfg.k, 0),
            spec("drop_sender", if shared { 3 } else { 0 }, 0, 0),
            spec("clone_receiver", if shared && bc { 5 } else { 0 }, 3, 0),
            spec("drop_receiver", if shared { 5 } else { 0 }, 3, 0),
            spec("drop_value", 6, 4, 0),
            spec("probe_after_done", 1, cfg.k, 0),
            // poll while another thread calls send() at the first instant the internal lock is free
            spec("poll_racing_send", if cfg.y == 3 { 12 } else { 0 }, cfg.k, 2),
        ]
    }
    fn run(&self, cfg: &Cfg, ops: &[Op], run: &mut Run) {
        match cfg.flavour {
            FL_LOCAL => run_m::<Noop>(cfg, ops, run),
            FL_SYNC | FL_SHARED => run_m::<PlLock>(cfg, ops, run),
            _ => run_m::<CheckedLock>(cfg, ops, run),
        }
    }
    fn nontrivial(&self, prop: &str, c: u64) -> bool {
        let b = |i: u32| c & (1 << i) != 0;
        match prop {
            "C01" => b(CL_DROP_PENDING_WITH_OTHERS) || b(CL_DROP_WOKEN),
            "C11" => b(CL_CLOSE_WITH_PENDING) || b(CL_HANDLE_OPS_TWO),
            "C12" => b(CL_TWO_PENDING_AT_SEND) || b(CL_TWO_PENDING_AT_CLOSE),
            "C17" => (b(CL_REPOLL_PENDING) && b(CL_TERMINATED_SEEN)) || b(CL_SHARED_REPOLL),
            "C18" => b(CL_THREE_PENDING_WAKE_ALL),
            _ => false,
        }
    }
    fn cfg_desc(&self, cfg: &Cfg) -> String {
        format!(
            "{} flavour={} slots={}{}",
            if cfg.mode == 1 { "oneshot-broadcast" } else { "oneshot" },
            flavour_name(cfg.flavour),
            cfg.k,
            match cfg.y {
                1 => " window-reaction=poll",
                2 => " window-reaction=drop",
                3 => " racing-send",
                _ => "",
            }
        )
    }
    fn class_names(&self) -> &'static [&'static str] {
        CLASS_NAMES
    }
}

enum Chan<M: RawMutex + 'static> {
    B1(GenericOneshotChannel<M, Tagged>),
    BB(GenericOneshotBroadcastChannel<M, Tagged>),
    S1 { tx: RefCell<Option<sh::GenericOneshotSender<M, Tagged>>>, rx: RefCell<Option<sh::GenericOneshotReceiver<M, Tagged>>> },
    SB { tx: RefCell<Option<sh::GenericOneshotBroadcastSender<M, Tagged>>>, rx: RefCell<Vec<sh::GenericOneshotBroadcastReceiver<M, Tagged>>> },
}

pub enum RFut<'a, M: RawMutex + 'static> {
    B(ChannelReceiveFuture<'a, M, Tagged>),
    S(sh::ChannelReceiveFuture<M, Tagged>),
}

impl<'a, M: RawMutex + 'static> Future for RFut<'a, M> {
    type Output = Option<Tagged>;
    fn poll(self: Pin<&mut Self>, cx: &mut Context<'_>) -> Poll<Self::Output> {
        // Safety: structural pinning, the enum is never moved out of its box nor re-assigned.
        unsafe {
            match self.get_unchecked_mut() {
                RFut::B(f) => Pin::new_unchecked(f).poll(cx),
                RFut::S(f) => Pin::new_unchecked(f).poll(cx),
            }
        }
    }
}

impl<'a, M: RawMutex + 'static> RFut<'a, M> {
    fn terminated(&self) -> bool {
        match self {
            RFut::B(f) => f.is_terminated(),
            RFut::S(f) => f.is_terminated(),
        }
    }
}

#[derive(Clone, Copy, PartialEq, Eq, Debug)]
enum St {
    Open,
    Sent,
    Closed,
}

fn next_where<F>(slots: &[Slot<F>], start: u8, pred: impl Fn(&Slot<F>) -> bool) -> Option<usize> {
    let n = slots.len();
    (0..n).map(|d| (start as usize + d) % n).find(|&i| pred(&slots[i]))
}

struct Model {
    st: St,
    sent_id: Option<u16>,
    taken: bool,
    newly_closed_seen: bool,
    handle_ops: u32,
    tx_alive: bool,
    rx_count: usize,
    delivered: u32,
}

/// Context of a window reaction (`tls::set_reactor`): what a second thread does to a woken receive
/// future at the instant its wake-up is delivered outside the channel's internal lock.
struct React<'a, M: RawMutex + 'static> {
    slots: *mut Vec<Slot<RFut<'a, M>>>,
    mode: u8,
    /// (slot, waker variant, result) - result None: the future was dropped
    done: Vec<(usize, u8, Option<Poll<Option<Tagged>>>)>,
}

unsafe fn react<M: RawMutex + 'static>(ctx: usize, id: usize) {
    let cx = &mut *(ctx as *mut React<'static, M>);
    if cx.done.len() == cx.done.capacity() {
        return;
    }
    let slots = &mut *cx.slots;
    let s = match slots.iter().position(|s| s.pending() && s.waker_id() == id) {
        Some(s) => s,
        None => return,
    };
    if cx.mode == 1 {
        let w = 1 - slots[s].last_w;
        let r = slots[s].poll_in_window(w);
        cx.done.push((s, w, Some(r)));
    } else {
        slots[s].drop_in_window();
        cx.done.push((s, 0, None));
    }
}

fn run_m<M: RawMutex + 'static>(cfg: &Cfg, ops: &[Op], run: &mut Run) {
    tls::reset_history();
    tls::set_shared_b(cfg.sw == 1);
    payload::reset();
    let shared = cfg.flavour >= FL_SHARED;
    let bc = cfg.mode == 1;
    if bc {
        run.class(CL_BROADCAST);
    }
    let chan_owner: Chan<M> = match (shared, bc) {
        (false, false) => Chan::B1(GenericOneshotChannel::new()),
        (false, true) => Chan::BB(GenericOneshotBroadcastChannel::new()),
        (true, false) => {
            let conv = if std::any::TypeId::of::<M>() == std::any::TypeId::of::<PlLock>() { retype(sh::oneshot_channel::<Tagged>()) } else { None };
            let (tx, rx) = conv.unwrap_or_else(sh::generic_oneshot_channel::<M, Tagged>);
            Chan::S1 { tx: RefCell::new(Some(tx)), rx: RefCell::new(Some(rx)) }
        }
        (true, true) => {
            let conv = if std::any::TypeId::of::<M>() == std::any::TypeId::of::<PlLock>() { retype(sh::oneshot_broadcast_channel::<Tagged>()) } else { None };
            let (tx, rx) = conv.unwrap_or_else(sh::generic_oneshot_broadcast_channel::<M, Tagged>);
            Chan::SB { tx: RefCell::new(Some(tx)), rx: RefCell::new(vec![rx]) }
        }
    };
    let chan = &chan_owner;
    let k = cfg.k as usize;
    let mut slots: Vec<Slot<RFut<'_, M>>> = (0..k).map(|i| Slot::new(i as u8)).collect();
    let mut held: Vec<Tagged> = Vec::with_capacity(8);
    let mut m = Model { st: St::Open, sent_id: None, taken: false, newly_closed_seen: false, handle_ops: 0, tx_alive: true, rx_count: 1, delivered: 0 };
    let mut snap = Snapshot::default();
    let mut order = Vec::new();

    macro_rules! monitors {
        () => {{
            if !run.failed() {
                monitors(chan, &m, &slots, &mut snap, &mut order, run);
            }
        }};
    }
    // owners of the shared state: handles + shared futures that have not completed
    macro_rules! owners {
        () => {
            if shared { m.tx_alive as usize + m.rx_count + slots.iter().filter(|s| s.alive() && !s.done).count() } else { 1 }
        };
    }
    macro_rules! keep {
        ($v:expr) => {{
            let v: Tagged = $v;
            if held.len() >= 6 {
                drop(v);
            } else {
                held.push(v);
            }
        }};
    }
    // who is to blame when the channel reports "closed" although the model says open
    macro_rules! closed_prop {
        () => {
            if shared {
                "C11"
            } else {
                "C12"
            }
        };
    }

    // verdict on the result of a send() and its effect on the model
    macro_rules! apply_send {
        ($id:expr, $r:expr, $pend_unwoken:expr) => {{
            let id: u16 = $id;
            let r = $r;
            let pend_unwoken: usize = $pend_unwoken;
                            run.note(|| format!("send(v{}) -> {}", id, if r.is_ok() { "Ok" } else { "Err" }));
                            if m.st != St::Open {
                                run.class(CL_SECOND_SEND);
                            }
                            match r {
                                Ok(()) => {
                                    if m.st != St::Open {
                                        // C12 itself says that a send after a close fails; whether the channel counts as
                                        // closed (explicit close or last handle of a side dropped) is C11's business
                                        let (p, kd) = if m.st == St::Sent { ("C12", "second-send-accepted") } else { ("C11", "send-after-close-accepted") };
                                        run.violate2(p, "C12", kd, format!("send(v{}) succeeded although the channel was already {}", id, if m.st == St::Sent { "used by an earlier send" } else { "closed" }));
                                    } else {
                                        if pend_unwoken >= 2 {
                                            run.class(CL_TWO_PENDING_AT_SEND);
                                        }
                                        if pend_unwoken >= 3 {
                                            run.class(CL_THREE_PENDING_WAKE_ALL);
                                        }
                                        m.st = St::Sent;
                                        m.sent_id = Some(id);
                                    }
                                }
                                Err(e) => {
                                    let back = e.0;
                                    if back.id != id {
                                        run.violate("C12", "wrong-value-returned", format!("send(v{}) failed and returned v{}", id, back.id));
                                    }
                                    if m.st == St::Open {
                                        run.violate(
                                            closed_prop!(),
                                            "send-rejected-while-open",
                                            format!("send(v{}) was rejected although no value was sent, close() was not called and a sender and a receiver handle are alive", id),
                                        );
                                    }
                                    keep!(back);
                                }
                            }
        }};
    }
    // verdict on the result of polling the receive future in a slot (model state `m` is current)
    macro_rules! judge_poll {
        ($s:expr, $w:expr, $r:expr, $was_pending:expr) => {{
            match $r {
                        Some(Poll::Ready(v)) => {
                            run.note(|| format!("poll slot {} waker {} -> Ready({})", $s, $w, v.as_ref().map(|t| format!("v{}", t.id)).unwrap_or("None".into())));
                            match (m.st, v) {
                                (St::Open, None) => run.violate(
                                    closed_prop!(),
                                    "closed-reported-while-open",
                                    format!("receive in slot {} completed with None although nothing was sent, close() was not called and a handle of each side is alive", $s),
                                ),
                                (St::Open, Some(t)) => {
                                    run.violate("C12", "value-from-nowhere", format!("receive in slot {} yielded v{} although nothing was sent", $s, t.id));
                                    std::mem::forget(t);
                                }
                                (St::Closed, None) => {}
                                (St::Closed, Some(t)) => {
                                    run.violate("C12", "value-after-close", format!("receive in slot {} yielded v{} on a channel that was closed without a value", $s, t.id));
                                    std::mem::forget(t);
                                }
                                (St::Sent, Some(t)) => {
                                    if Some(t.id) != m.sent_id {
                                        run.violate("C12", "wrong-value", format!("receive in slot {} yielded v{} but v{:?} was sent", $s, t.id, m.sent_id));
                                    } else if !bc && m.taken {
                                        run.violate("C12", "value-delivered-twice", format!("receive in slot {} yielded v{} which another receive had already obtained", $s, t.id));
                                    }
                                    m.taken = true;
                                    m.delivered += 1;
                                    if m.delivered >= 2 {
                                        run.class(CL_TWO_VALUES_DELIVERED);
                                    }
                                    if slots[$s].flag {
                                        run.class(CL_RECV_AFTER_SEND);
                                    }
                                    keep!(t);
                                }
                                (St::Sent, None) => {
                                    if bc {
                                        // also C11: receivers still get the values accepted before the (implicit) close
                                        run.violate2("C12", "C11", "broadcast-missed", format!("broadcast receive in slot {} completed with None although v{:?} was sent", $s, m.sent_id));
                                    } else if !m.taken {
                                        run.violate2("C12", "C11", "value-lost", format!("receive in slot {} completed with None although v{:?} was sent and not yet received", $s, m.sent_id));
                                    } else {
                                        run.class(CL_LOSER_NONE);
                                    }
                                }
                            }
                        }
                        Some(Poll::Pending) => {
                            run.note(|| format!("poll slot {} waker {} -> Pending", $s, $w));
                            if m.st != St::Open {
                                run.violate2(
                                    if m.st == St::Sent { "C12" } else { "C11" },
                                    "C12",
                                    "pending-on-finished-channel",
                                    format!("receive in slot {} returned Pending although the channel is {}", $s, if m.st == St::Sent { "fulfilled" } else { "closed" }),
                                );
                            }
                            if $was_pending {
                                run.class(CL_REPOLL_PENDING);
                                if shared {
                                    run.class(CL_SHARED_REPOLL);
                                }
                            }
                        }
                        None => {}
            }
        }};
    }
    let reactive = (cfg.y == 1 || cfg.y == 2) && (cfg.flavour == FL_CHECKED || cfg.flavour == FL_SHARED_CHECKED);
    let mut rc: React<'_, M> = React { slots: std::ptr::null_mut(), mode: cfg.y, done: Vec::with_capacity(8) };

    monitors!();
    for (i, op) in ops.iter().enumerate() {
        if run.failed() {
            break;
        }
        run.set_step(i);
        run.steps += 1;
        let op = &recycle(op, &slots, &[OP_MK], OP_POLL, OP_DROP);
        tls::clear_op_log();
        tls::alloc_reset();
        let owners_before = owners!();
        let pend_unwoken = slots.iter().filter(|s| s.pending() && !s.woken()).count();
        let pending_before = slots.iter().filter(|s| s.pending()).count();
        let mut implicit_close = false;
        if reactive && matches!(op.code, OP_SEND | OP_CLOSE | OP_DROP_TX | OP_DROP_RX) {
            rc.slots = &mut slots as *mut _;
            tls::set_reactor(Some((&mut rc as *mut React<'_, M> as usize, react::<M>)));
        }
        match op.code {
            OP_SEND => {
                let can = match chan {
                    Chan::S1 { tx, .. } => tx.borrow().is_some(),
                    Chan::SB { tx, .. } => tx.borrow().is_some(),
                    _ => true,
                };
                match (can, Tagged::fresh()) {
                    (true, Some(val)) => {
                        let id = val.id;
                        let r = run.call("send()", || match chan {
                            Chan::B1(c) => c.send(val),
                            Chan::BB(c) => c.send(val),
                            Chan::S1 { tx, .. } => tx.borrow().as_ref().unwrap().send(val),
                            Chan::SB { tx, .. } => tx.borrow().as_ref().unwrap().send(val),
                        });
                        if let Some(r) = r {
                            apply_send!(id, r, pend_unwoken);
                        }
                    }
                    _ => run.noops += 1,
                }
            }
            OP_CLOSE => {
                let r = run.call("close()", || match chan {
                    Chan::B1(c) => Some(c.close()),
                    Chan::BB(c) => Some(c.close()),
                    _ => None,
                });
                match r {
                    Some(Some(status)) => {
                        run.note(|| format!("close() -> {:?}", status));
                        let newly = status == CloseStatus::NewlyClosed;
                        if pending_before >= 1 && m.st == St::Open {
                            run.class(CL_CLOSE_WITH_PENDING);
                        }
                        if m.st == St::Open && pend_unwoken >= 2 {
                            run.class(CL_TWO_PENDING_AT_CLOSE);
                        }
                        if m.st == St::Open && pend_unwoken >= 3 {
                            run.class(CL_THREE_PENDING_WAKE_ALL);
                        }
                        match m.st {
                            St::Open => {
                                if !newly {
                                    run.violate("C11", "close-status", "first close() of an open channel returned AlreadyClosed".into());
                                }
                                m.st = St::Closed;
                            }
                            St::Closed => {
                                if newly {
                                    run.violate("C11", "close-status", "close() of a closed channel returned NewlyClosed".into());
                                }
                            }
                            St::Sent => {
                                // either status is acceptable once, see DESIGN.md C11
                            }
                        }
                        if newly {
                            if m.newly_closed_seen {
                                run.violate("C11", "close-status", "close() returned NewlyClosed twice".into());
                            }
                            m.newly_closed_seen = true;
                        }
                    }
                    _ => run.noops += 1,
                }
            }
            OP_MK => match next_where(&slots, op.a, |s| !s.alive()) {
                Some(s) => {
                    let f = run.call("receive()", || match chan {
                        Chan::B1(c) => Some(RFut::B(c.receive())),
                        Chan::BB(c) => Some(RFut::B(c.receive())),
                        Chan::S1 { rx, .. } => rx.borrow().as_ref().map(|r| RFut::S(r.receive())),
                        Chan::SB { rx, .. } => {
                            let v = rx.borrow();
                            if v.is_empty() {
                                None
                            } else {
                                Some(RFut::S(v[op.b as usize % v.len()].receive()))
                            }
                        }
                    });
                    match f {
                        Some(Some(f)) => {
                            slots[s].install(f);
                            slots[s].flag = m.st == St::Sent; // started after the send
                            run.note(|| format!("create receive future in slot {}", s));
                        }
                        _ => run.noops += 1,
                    }
                }
                None => run.noops += 1,
            },
            OP_POLL => match next_where(&slots, op.a, |s| s.pollable()) {
                Some(s) => {
                    let was_pending = slots[s].pending();
                    let r = slots[s].poll(op.b, run);
                    judge_poll!(s, op.b, r, was_pending);
                }
                None => run.noops += 1,
            },
            OP_POLL_RACE if cfg.y == 3 => match (
                next_where(&slots, op.a, |s| s.pollable()),
                match chan {
                    Chan::S1 { tx, .. } => tx.borrow().is_some(),
                    Chan::SB { tx, .. } => tx.borrow().is_some(),
                    _ => true,
                },
            ) {
                (Some(s), true) => match Tagged::fresh() {
                    Some(val) => {
                        run.class(CL_RACING_SEND);
                        let was_pending = slots[s].pending();
                        let id = val.id;
                        let mut rc: RaceCtx<'_, M> = RaceCtx { chan, val: Some(val), res: None };
                        tls::install_unlock_hook(&mut rc as *mut RaceCtx<'_, M> as usize, race_send::<M>);
                        let r = slots[s].poll(op.b, run);
                        let (fired, relocked) = tls::remove_unlock_hook();
                        if !fired && !run.failed() {
                            let rcp = &mut rc;
                            run.call("send()", || unsafe { race_send::<M>(rcp as *mut RaceCtx<'_, M> as usize) });
                        }
                        run.note(|| format!("poll slot {} waker {} racing with send(v{}) (send ran inside the poll: {}, poll locked again afterwards: {})", s, op.b, id, fired, relocked));
                        match rc.res.take() {
                            Some(sr) if !run.failed() => {
                                // one critical section per poll: the send came after the poll took effect; a poll
                                // that locked again may have seen the value: then the send came first
                                let saw_new = matches!(&r, Some(Poll::Ready(Some(t))) if t.id == id);
                                if relocked && saw_new {
                                    apply_send!(id, sr, pend_unwoken);
                                    judge_poll!(s, op.b, r, was_pending);
                                } else if relocked && matches!(&r, Some(Poll::Pending)) {
                                    // order unknown: no verdict on Pending itself, the monitors decide whether the
                                    // receiver has been woken
                                    apply_send!(id, sr, pend_unwoken);
                                } else {
                                    judge_poll!(s, op.b, r, was_pending);
                                    apply_send!(id, sr, pend_unwoken);
                                }
                            }
                            _ => {
                                if let Some(v) = rc.val.take() {
                                    keep!(v);
                                }
                                if let Some(Poll::Ready(Some(t))) = r {
                                    std::mem::forget(t);
                                }
                            }
                        }
                    }
                    None => run.noops += 1,
                },
                _ => run.noops += 1,
            },
            OP_DROP => match next_where(&slots, op.a, |s| s.alive()) {
                Some(s) => {
                    if slots[s].pending() {
                        if pending_before >= 2 {
                            run.class(CL_DROP_PENDING_WITH_OTHERS);
                        }
                        if slots[s].woken() {
                            run.class(CL_DROP_WOKEN);
                        }
                    }
                    slots[s].drop_fut(run, "drop(receive future)");
                    run.note(|| format!("drop slot {}", s));
                }
                None => run.noops += 1,
            },
            OP_DROP_TX => {
                let h = match chan {
                    Chan::S1 { tx, .. } => tx.borrow_mut().take().map(|t| Box::new(t) as Box<dyn std::any::Any>),
                    Chan::SB { tx, .. } => tx.borrow_mut().take().map(|t| Box::new(t) as Box<dyn std::any::Any>),
                    _ => None,
                };
                match h {
                    Some(h) => {
                        // the Box is ours: drop the handle inside the call, free the box outside
                        drop_boxed(run, h, "drop(sender)");
                        m.tx_alive = false;
                        m.handle_ops += 1;
                        implicit_close = true;
                        run.note(|| "drop sender handle".to_string());
                    }
                    None => run.noops += 1,
                }
            }
            OP_CLONE_RX => match chan {
                Chan::SB { rx, .. } if !rx.borrow().is_empty() && rx.borrow().len() < 3 => {
                    let c = {
                        let v = rx.borrow();
                        let h = &v[op.a as usize % v.len()];
                        run.call("clone(receiver)", || h.clone())
                    };
                    if let Some(c) = c {
                        rx.borrow_mut().push(c);
                        m.rx_count += 1;
                        m.handle_ops += 1;
                        run.note(|| "clone receiver handle".to_string());
                    }
                }
                _ => run.noops += 1,
            },
            OP_DROP_RX => {
                let h: Option<Box<dyn std::any::Any>> = match chan {
                    Chan::S1 { rx, .. } => rx.borrow_mut().take().map(|t| Box::new(t) as Box<dyn std::any::Any>),
                    Chan::SB { rx, .. } => {
                        let mut v = rx.borrow_mut();
                        if v.is_empty() {
                            None
                        } else {
                            let idx = op.a as usize % v.len();
                            Some(Box::new(v.remove(idx)) as Box<dyn std::any::Any>)
                        }
                    }
                    _ => None,
                };
                match h {
                    Some(h) => {
                        if m.handle_ops >= 2 && m.rx_count == 1 {
                            run.class(CL_HANDLE_OPS_TWO);
                        }
                        drop_boxed(run, h, "drop(receiver)");
                        m.rx_count -= 1;
                        m.handle_ops += 1;
                        if m.rx_count == 0 {
                            implicit_close = true;
                        }
                        if slots.iter().any(|s| s.alive() && !s.done) {
                            run.class(CL_FUTURE_OUTLIVES_HANDLE);
                        }
                        run.note(|| format!("drop receiver handle ({} left)", m.rx_count));
                    }
                    None => run.noops += 1,
                }
            }
            OP_DROP_HELD => {
                if held.is_empty() {
                    run.noops += 1;
                } else {
                    let idx = op.a as usize % held.len();
                    let v = held.remove(idx);
                    run.note(|| format!("drop held value v{}", v.id));
                    drop(v);
                }
            }
            _ => {
                if !run.allow_probe {
                    run.noops += 1;
                } else {
                    match next_where(&slots, op.a, |s| s.alive() && s.done) {
                        Some(s) => {
                            run.class(CL_PROBE);
                            slots[s].probe_after_done(run, "oneshot receive future");
                            run.note(|| format!("probe slot {} after completion", s));
                        }
                        None => run.noops += 1,
                    }
                }
            }
        }
        if implicit_close && m.st == St::Open {
            if pending_before >= 1 {
                run.class(CL_CLOSE_WITH_PENDING);
            }
            if pend_unwoken >= 2 {
                run.class(CL_TWO_PENDING_AT_CLOSE);
            }
            if pend_unwoken >= 3 {
                run.class(CL_THREE_PENDING_WAKE_ALL);
            }
            m.st = St::Closed;
        }
        if reactive {
            tls::set_reactor(None);
            // what the "second thread" did inside the window happened after the call took effect
            let done: Vec<_> = rc.done.drain(..).collect();
            for (s, w, r) in done {
                if run.failed() {
                    if let Some(Poll::Ready(Some(t))) = r {
                        std::mem::forget(t);
                    }
                    continue;
                }
                run.class(CL_WINDOW_REACTION);
                match r {
                    Some(r) => {
                        run.note(|| format!("  (inside the window after the unlock: slot {} polled by another thread)", s));
                        judge_poll!(s, w, Some(r), true);
                    }
                    None => run.note(|| format!("  (inside the window after the unlock: slot {} dropped by another thread)", s)),
                }
            }
        }
        // C18
        let (a, d) = tls::alloc_counts();
        let owners_after = owners!();
        let may_free = shared && owners_before > 0 && owners_after == 0;
        if !run.failed() && (a != 0 || (d != 0 && !may_free) || d > 1) {
            run.violate("C18", "allocation", format!("op {:?} performed {} allocations and {} deallocations (last owner released: {})", op, a, d, may_free));
        }
        monitors!();
    }

    let fp_end = run.fp;
    if !run.failed() {
        run.set_step(ops.len());
        for s in 0..k {
            if slots[s].alive() && !run.failed() {
                slots[s].drop_fut(run, "drop(receive future)");
                monitors!();
            }
        }
        if tls::waker_overdrop() && !run.failed() {
            run.violate("C01", "waker-dropped-twice", "a waker was dropped more often than it was cloned".into());
        }
    }
    run.fp = fp_end;
    if run.failed() {
        for s in slots.iter_mut() {
            s.leak();
        }
        while let Some(v) = held.pop() {
            std::mem::forget(v);
        }
        drop(slots);
        std::mem::forget(chan_owner);
        return;
    }
    drop(slots);
    held.clear();
    // teardown of the channel itself, then the value ledger must balance
    let ids = payload::ids();
    let r = lib_call(|| drop(chan_owner));
    if let Err(msg) = r {
        run.violate("C01", "panic", format!("dropping the channel panicked: {}", msg));
        if run.failed() {
            return;
        }
    }
    for id in 0..ids as u16 {
        let live = payload::live(id);
        if live != 0 {
            run.violate(
                "C12",
                "value-lifecycle",
                format!("value v{}: {} clones, {} drops after the channel and all futures are gone ({} live instances)", id, payload::clones(id), payload::drops(id), live),
            );
            if run.failed() {
                return;
            }
        }
    }
}

/// The send() of another thread that races with a poll (`tls::install_unlock_hook`).
struct RaceCtx<'a, M: RawMutex + 'static> {
    chan: &'a Chan<M>,
    val: Option<Tagged>,
    res: Option<Result<(), futures_intrusive::channel::ChannelSendError<Tagged>>>,
}

unsafe fn race_send<M: RawMutex + 'static>(ctx: usize) {
    let rc = &mut *(ctx as *mut RaceCtx<'static, M>);
    if let Some(val) = rc.val.take() {
        rc.res = Some(match rc.chan {
            Chan::B1(c) => c.send(val),
            Chan::BB(c) => c.send(val),
            Chan::S1 { tx, .. } => tx.borrow().as_ref().unwrap().send(val),
            Chan::SB { tx, .. } => tx.borrow().as_ref().unwrap().send(val),
        });
    }
}

fn drop_boxed(run: &mut Run, h: Box<dyn std::any::Any>, what: &'static str) {
    let raw = Box::into_raw(h);
    run.call(what, || unsafe { std::ptr::drop_in_place(raw) });
    // free the box without running the destructor again
    unsafe {
        let layout = std::alloc::Layout::for_value(&*raw);
        tls::bury(raw as *mut u8, layout);
    }
}

fn monitors<M: RawMutex + 'static>(chan: &Chan<M>, m: &Model, slots: &[Slot<RFut<'_, M>>], snap: &mut Snapshot, order: &mut Vec<(u8, u8, u8, u8, u64)>, run: &mut Run) {
    // every receiver pending at the moment of the send or close has been woken
    if m.st != St::Open {
        for (i, s) in slots.iter().enumerate() {
            if s.pending() && !s.woken() {
                // C12: "every receiver pending at the moment of the send or close has been woken"
                run.violate2(
                    if m.st == St::Sent { "C12" } else { "C11" },
                    "C12",
                    "not-woken",
                    format!("slot {} is pending on a {} channel and has not been woken through its latest waker", i, if m.st == St::Sent { "fulfilled" } else { "closed" }),
                );
                if run.failed() {
                    return;
                }
            }
        }
    }
    // the sent value is never dropped more often than it was created/cloned
    if let Some(id) = m.sent_id {
        if payload::live(id) < 0 {
            run.violate("C12", "value-lifecycle", format!("value v{} was dropped {} times but only {} instances exist", id, payload::drops(id), 1 + payload::clones(id)));
            if run.failed() {
                return;
            }
        }
    }
    for (i, s) in slots.iter().enumerate() {
        if let Some(f) = s.fut.as_ref() {
            let t = f.terminated();
            if t {
                run.class(CL_TERMINATED_SEEN);
            }
            if t != s.done {
                run.violate("C17", "is_terminated-mismatch", format!("slot {}: is_terminated() == {} but completed == {}", i, t, s.done));
                if run.failed() {
                    return;
                }
            }
        }
    }
    snap.clear();
    let mut have = true;
    match chan {
        Chan::B1(c) => c.verif_snapshot(&mut |it| snap.push(it)),
        Chan::BB(c) => c.verif_snapshot(&mut |it| snap.push(it)),
        Chan::S1 { tx, rx } => {
            if let Some(t) = tx.borrow().as_ref() {
                t.verif_snapshot(&mut |it| snap.push(it))
            } else if let Some(r) = rx.borrow().as_ref() {
                r.verif_snapshot(&mut |it| snap.push(it))
            } else {
                have = false
            }
        }
        Chan::SB { tx, rx } => {
            if let Some(t) = tx.borrow().as_ref() {
                t.verif_snapshot(&mut |it| snap.push(it))
            } else if let Some(r) = rx.borrow().first() {
                r.verif_snapshot(&mut |it| snap.push(it))
            } else {
                have = false
            }
        }
    }
    order.clear();
    if have {
        let views: Views = slots
            .iter()
            .enumerate()
            .map(|(i, s)| SlotView { queue: 0, idx: i as u8, range: s.range(), pending: s.pending(), woken: s.woken() })
            .collect();
        check_list_queues(snap, &[0], &views, run, order, "C12");
    }
    if run.want_fp {
        let mut h = H128::new();
        h.bytes(&[m.st as u8, m.taken as u8, m.tx_alive as u8, m.rx_count as u8, m.newly_closed_seen as u8, have as u8]);
        for s in slots {
            h.bytes(&[s.alive() as u8, s.polled as u8, s.done as u8, s.last_w, s.woken() as u8]);
        }
        for o in order.iter() {
            h.bytes(&[o.0, o.1, o.2, o.3]);
        }
        run.fp = h.finish();
    }
}
