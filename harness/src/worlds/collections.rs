//! Intrusive list and pairing heap worlds (C20), driven directly through the `verif` re-exports.

use crate::common::*;
use futures_intrusive::verif::{HeapNode, LinkedList, ListNode, PairingHeap};
use std::collections::VecDeque;
use std::pin::Pin;

pub struct ListWorld;
pub struct HeapWorld;

// ------------------------------------------------------------------------------------------ list

pub const L_ADD_FRONT: u8 = 0;
pub const L_REMOVE_FIRST: u8 = 1;
pub const L_REMOVE_LAST: u8 = 2;
pub const L_REMOVE: u8 = 3;
pub const L_DRAIN: u8 = 4;
pub const L_REVERSE_DRAIN: u8 = 5;
pub const L_PEEK: u8 = 6;

pub const CL_REINSERT: u32 = 0;
pub const CL_REMOVE_MIDDLE: u32 = 1;
pub const CL_REMOVE_NON_MEMBER: u32 = 2;
pub const CL_DRAIN_THREE: u32 = 3;
pub const CL_REMOVE_INNER_TWO_CHILDREN: u32 = 4;
pub const CL_DUPLICATE_KEYS: u32 = 5;
pub const CL_REMOVE_ROOT_MANY: u32 = 6;

const LIST_CLASSES: &[&str] = &["re-insertion", "remove-from-middle", "remove-non-member", "drain-of-three", "-", "-", "-"];
const HEAP_CLASSES: &[&str] = &["re-insertion", "-", "-", "-", "remove-inner-node-with-two-children", "duplicate-keys", "remove-root-with-three-children"];

impl World for ListWorld {
    fn id(&self) -> u8 {
        9
    }
    fn name(&self) -> &'static str {
        "list"
    }
    fn props(&self) -> &'static [&'static str] {
        &["C20"]
    }
    fn configs(&self, _tier: Tier) -> Vec<Cfg> {
        vec![Cfg { flavour: 0, mode: 0, x: 0, y: 0, k: 6, sw: 0 }, Cfg { flavour: 0, mode: 0, x: 0, y: 0, k: 3, sw: 0 }]
    }
    fn enum_configs(&self, tier: Tier) -> Vec<(Cfg, usize)> {
        if tier == Tier::Quick {
            vec![(Cfg { flavour: 0, mode: 0, x: 0, y: 0, k: 4, sw: 0 }, 9)]
        } else {
            vec![(Cfg { flavour: 0, mode: 0, x: 0, y: 0, k: 5, sw: 0 }, 40)]
        }
    }
    fn specs(&self, cfg: &Cfg) -> Vec<OpSpec> {
        vec![
            spec("add_front", 30, cfg.k, 0),
            spec("remove_first", 8, 0, 0),
            spec("remove_last", 8, 0, 0),
            spec("remove", 20, cfg.k, 0),
            spec("drain", 2, 0, 0),
            spec("reverse_drain", 2, 0, 0),
            spec("peek", 3, 0, 0),
        ]
    }
    fn run(&self, cfg: &Cfg, ops: &[Op], run: &mut Run) {
        run_list(cfg, ops, run)
    }
    fn nontrivial(&self, prop: &str, c: u64) -> bool {
        let b = |i: u32| c & (1 << i) != 0;
        prop == "C20" && b(CL_REINSERT) && b(CL_REMOVE_MIDDLE)
    }
    fn cfg_desc(&self, cfg: &Cfg) -> String {
        format!("intrusive list, pool of {} nodes", cfg.k)
    }
    fn class_names(&self) -> &'static [&'static str] {
        LIST_CLASSES
    }
}

fn run_list(cfg: &Cfg, ops: &[Op], run: &mut Run) {
    tls::reset_history();
    run.panic_prop = Some("C20");
    let k = cfg.k as usize;
    let mut nodes: Vec<Pin<Box<ListNode<u32>>>> = (0..k).map(|i| Box::pin(ListNode::new(i as u32))).collect();
    let addr = |nodes: &Vec<Pin<Box<ListNode<u32>>>>, i: usize| &*nodes[i] as *const ListNode<u32>;
    let mut list: LinkedList<u32> = LinkedList::new();
    let mut model: VecDeque<usize> = VecDeque::new(); // front = head
    let mut was_member = vec![false; k];

    for (i, op) in ops.iter().enumerate() {
        if run.failed() {
            break;
        }
        run.set_step(i);
        run.steps += 1;
        match op.code {
            L_ADD_FRONT => {
                let n = (0..k).map(|d| (op.a as usize + d) % k).find(|j| !model.contains(j));
                match n {
                    Some(n) => {
                        let node = unsafe { nodes[n].as_mut().get_unchecked_mut() };
                        if run.call("add_front()", || unsafe { list.add_front(node) }).is_some() {
                            model.push_front(n);
                            if was_member[n] {
                                run.class(CL_REINSERT);
                            }
                            was_member[n] = true;
                            run.note(|| format!("add_front(n{})", n));
                        }
                    }
                    None => run.noops += 1,
                }
            }
            L_REMOVE_FIRST | L_REMOVE_LAST => {
                let first = op.code == L_REMOVE_FIRST;
                let got = run.call(if first { "remove_first()" } else { "remove_last()" }, || {
                    let r = if first { list.remove_first() } else { list.remove_last() };
                    r.map(|n| **n as usize)
                });
                if let Some(got) = got {
                    let expect = if first { model.pop_front() } else { model.pop_back() };
                    run.note(|| format!("{} -> {:?}", if first { "remove_first" } else { "remove_last" }, got));
                    if got != expect {
                        run.violate("C20", "deque-order", format!("{} returned {:?}, the deque reference says {:?}", if first { "remove_first()" } else { "remove_last()" }, got, expect));
                    }
                }
            }
            L_REMOVE => {
                let n = op.a as usize % k;
                let pos = model.iter().position(|x| *x == n);
                if let Some(p) = pos {
                    if p > 0 && p + 1 < model.len() {
                        run.class(CL_REMOVE_MIDDLE);
                    }
                } else {
                    run.class(CL_REMOVE_NON_MEMBER);
                }
                let node = unsafe { nodes[n].as_mut().get_unchecked_mut() };
                if let Some(r) = run.call("remove()", || unsafe { list.remove(node) }) {
                    run.note(|| format!("remove(n{}) -> {}", n, r));
                    if r != pos.is_some() {
                        run.violate("C20", "remove-result", format!("remove(n{}) returned {} but the node {} a member", n, r, if pos.is_some() { "is" } else { "is not" }));
                    }
                    if let Some(p) = pos {
                        model.remove(p);
                    }
                }
            }
            L_DRAIN | L_REVERSE_DRAIN => {
                let rev = op.code == L_REVERSE_DRAIN;
                if model.len() >= 3 {
                    run.class(CL_DRAIN_THREE);
                }
                let mut seen: Vec<usize> = Vec::with_capacity(k);
                let r = run.call(if rev { "reverse_drain()" } else { "drain()" }, || {
                    if rev {
                        list.reverse_drain(|n| seen.push(**n as usize))
                    } else {
                        list.drain(|n| seen.push(**n as usize))
                    }
                });
                if r.is_some() {
                    let mut expect: Vec<usize> = model.iter().copied().collect();
                    if rev {
                        expect.reverse();
                    }
                    run.note(|| format!("{} -> {:?}", if rev { "reverse_drain" } else { "drain" }, seen));
                    if seen != expect {
                        run.violate("C20", "drain-order", format!("{} visited {:?}, expected {:?}", if rev { "reverse_drain()" } else { "drain()" }, seen, expect));
                    }
                    model.clear();
                }
            }
            _ => {
                let r = run.call("peek", || {
                    let a = list.peek_first().map(|n| **n as usize);
                    let b = list.peek_last().map(|n| **n as usize);
                    let c = list.peek_first_mut().map(|n| **n as usize);
                    let d = list.peek_last_mut().map(|n| **n as usize);
                    (a, b, c, d, list.is_empty())
                });
                if let Some((a, b, c, d, e)) = r {
                    let (f, l) = (model.front().copied(), model.back().copied());
                    if a != f || c != f || b != l || d != l || e != model.is_empty() {
                        run.violate("C20", "peek", format!("peek_first/last(_mut)/is_empty = {:?} {:?} {:?} {:?} {} but the deque reference is {:?}", a, b, c, d, e, model));
                    }
                }
            }
        }
        if run.failed() {
            break;
        }
        // structural validation through the read-only accessors
        let mut fwd: Vec<usize> = Vec::new();
        list.verif_for_each(&mut |n| fwd.push(**n as usize));
        let mut bwd: Vec<usize> = Vec::new();
        list.verif_for_each_rev(&mut |n| bwd.push(**n as usize));
        let expect: Vec<usize> = model.iter().copied().collect();
        let mut rexpect = expect.clone();
        rexpect.reverse();
        if fwd != expect || bwd != rexpect {
            run.violate("C20", "list-structure", format!("head->tail walk {:?}, tail->head walk {:?}, deque reference {:?}", fwd, bwd, expect));
            break;
        }
        if list.verif_head() != expect.first().map(|&j| addr(&nodes, j)) || list.verif_tail() != expect.last().map(|&j| addr(&nodes, j)) {
            run.violate("C20", "list-structure", "head / tail pointers do not match the first / last member".into());
            break;
        }
        for j in 0..k {
            let (p, nx) = (nodes[j].verif_prev(), nodes[j].verif_next());
            match expect.iter().position(|x| *x == j) {
                None => {
                    if p.is_some() || nx.is_some() {
                        run.violate("C20", "stale-links", format!("node n{} is not a member but still carries links (prev set: {}, next set: {})", j, p.is_some(), nx.is_some()));
                    }
                }
                Some(pos) => {
                    let want_p = if pos == 0 { None } else { Some(addr(&nodes, expect[pos - 1])) };
                    let want_n = if pos + 1 == expect.len() { None } else { Some(addr(&nodes, expect[pos + 1])) };
                    if p != want_p || nx != want_n {
                        run.violate("C20", "list-structure", format!("links of member n{} are not consistent with its neighbours", j));
                    }
                }
            }
        }
        if run.want_fp {
            let mut h = H128::new();
            for j in &expect {
                h.u8(*j as u8);
            }
            h.u8(0xff);
            for j in 0..k {
                h.u8(was_member[j] as u8);
            }
            run.fp = h.finish();
        }
    }
    if run.failed() {
        std::mem::forget(nodes);
    } else {
        // precondition of the list: nodes are removed before they are dropped
        run.call("drain()", || list.drain(|_| {}));
    }
}

// ------------------------------------------------------------------------------------------ heap

#[derive(Debug, Clone, Copy)]
pub struct Key {
    pub key: u8,
    pub idx: u8,
}
impl PartialEq for Key {
    fn eq(&self, o: &Key) -> bool {
        self.key == o.key
    }
}
impl Eq for Key {}
impl PartialOrd for Key {
    fn partial_cmp(&self, o: &Key) -> Option<std::cmp::Ordering> {
        Some(self.cmp(o))
    }
}
impl Ord for Key {
    fn cmp(&self, o: &Key) -> std::cmp::Ordering {
        self.key.cmp(&o.key)
    }
}

pub const H_INSERT: u8 = 0;
pub const H_REMOVE: u8 = 1;
pub const H_PEEK: u8 = 2;

impl World for HeapWorld {
    fn id(&self) -> u8 {
        10
    }
    fn name(&self) -> &'static str {
        "heap"
    }
    fn props(&self) -> &'static [&'static str] {
        &["C20"]
    }
    fn configs(&self, _tier: Tier) -> Vec<Cfg> {
        vec![Cfg { flavour: 0, mode: 0, x: 3, y: 0, k: 6, sw: 0 }, Cfg { flavour: 0, mode: 0, x: 8, y: 0, k: 8, sw: 0 }]
    }
    fn enum_configs(&self, tier: Tier) -> Vec<(Cfg, usize)> {
        if tier == Tier::Quick {
            vec![(Cfg { flavour: 0, mode: 0, x: 3, y: 0, k: 4, sw: 0 }, 8)]
        } else {
            vec![(Cfg { flavour: 0, mode: 0, x: 3, y: 0, k: 6, sw: 0 }, 12), (Cfg { flavour: 0, mode: 0, x: 3, y: 0, k: 5, sw: 0 }, 40)]
        }
    }
    fn specs(&self, cfg: &Cfg) -> Vec<OpSpec> {
        vec![spec("insert", 30, cfg.k, cfg.x), spec("remove", 22, cfg.k, 0), spec("peek_min", 3, 0, 0)]
    }
    fn run(&self, cfg: &Cfg, ops: &[Op], run: &mut Run) {
        run_heap(cfg, ops, run)
    }
    fn nontrivial(&self, prop: &str, c: u64) -> bool {
        let b = |i: u32| c & (1 << i) != 0;
        prop == "C20" && b(CL_REINSERT) && (b(CL_REMOVE_INNER_TWO_CHILDREN) || b(CL_REMOVE_ROOT_MANY))
    }
    fn cfg_desc(&self, cfg: &Cfg) -> String {
        format!("intrusive pairing heap, pool of {} nodes, keys from a {}-value set", cfg.k, cfg.x)
    }
    fn class_names(&self) -> &'static [&'static str] {
        HEAP_CLASSES
    }
}

fn run_heap(cfg: &Cfg, ops: &[Op], run: &mut Run) {
    tls::reset_history();
    run.panic_prop = Some("C20");
    let k = cfg.k as usize;
    let mut nodes: Vec<Pin<Box<HeapNode<Key>>>> = (0..k).map(|i| Box::pin(HeapNode::new(Key { key: 0, idx: i as u8 }))).collect();
    let addr = |nodes: &Vec<Pin<Box<HeapNode<Key>>>>, i: usize| &*nodes[i] as *const HeapNode<Key>;
    let mut heap: PairingHeap<Key> = PairingHeap::new();
    let mut member: Vec<Option<u8>> = vec![None; k]; // key of member nodes
    let mut was_member = vec![false; k];

    for (i, op) in ops.iter().enumerate() {
        if run.failed() {
            break;
        }
        run.set_step(i);
        run.steps += 1;
        match op.code {
            H_INSERT => {
                let n = (0..k).map(|d| (op.a as usize + d) % k).find(|&j| member[j].is_none());
                match n {
                    Some(n) => {
                        let key = op.b;
                        let node = unsafe { nodes[n].as_mut().get_unchecked_mut() };
                        **node = Key { key, idx: n as u8 };
                        if run.call("insert()", || unsafe { heap.insert(node) }).is_some() {
                            if member.iter().any(|m| *m == Some(key)) {
                                run.class(CL_DUPLICATE_KEYS);
                            }
                            member[n] = Some(key);
                            if was_member[n] {
                                run.class(CL_REINSERT);
                            }
                            was_member[n] = true;
                            run.note(|| format!("insert(n{}, key {})", n, key));
                        }
                    }
                    None => run.noops += 1,
                }
            }
            H_REMOVE => {
                // precondition: the node is a member
                let n = (0..k).map(|d| (op.a as usize + d) % k).find(|&j| member[j].is_some());
                match n {
                    Some(n) => {
                        let children = (0..k).filter(|&j| member[j].is_some() && nodes[j].verif_parent() == Some(addr(&nodes, n))).count();
                        if nodes[n].verif_parent().is_some() && children >= 2 {
                            run.class(CL_REMOVE_INNER_TWO_CHILDREN);
                        }
                        if nodes[n].verif_parent().is_none() && children >= 3 {
                            run.class(CL_REMOVE_ROOT_MANY);
                        }
                        let node = unsafe { nodes[n].as_mut().get_unchecked_mut() };
                        if run.call("remove()", || unsafe { heap.remove(node) }).is_some() {
                            member[n] = None;
                            run.note(|| format!("remove(n{})", n));
                        }
                    }
                    None => run.noops += 1,
                }
            }
            _ => {}
        }
        if run.failed() {
            break;
        }
        // peek_min exposes a member with a minimal key
        let min_key = member.iter().flatten().min().copied();
        let peek = heap.peek_min().map(|p| unsafe { **p.as_ref() });
        match (peek, min_key) {
            (None, None) => {}
            (Some(kx), Some(mk)) => {
                if member[kx.idx as usize] != Some(kx.key) {
                    run.violate("C20", "peek-not-member", format!("peek_min() exposes n{} (key {}) which is not a member", kx.idx, kx.key));
                } else if kx.key != mk {
                    run.violate("C20", "peek-not-minimum", format!("peek_min() exposes key {} but a member with key {} exists", kx.key, mk));
                }
            }
            (p, m) => run.violate("C20", "peek-emptiness", format!("peek_min() is {:?} but the reference minimum is {:?}", p.map(|x| x.key), m)),
        }
        if run.failed() {
            break;
        }
        // structural validation
        let mut reach: Vec<usize> = Vec::new();
        heap.verif_for_each(&mut |n| reach.push(n.idx as usize));
        let mut sorted = reach.clone();
        sorted.sort_unstable();
        let expect: Vec<usize> = (0..k).filter(|&j| member[j].is_some()).collect();
        if sorted != expect {
            run.violate("C20", "heap-structure", format!("nodes reachable from the root {:?} differ from the members {:?}", reach, expect));
            break;
        }
        if heap.verif_root().is_some() != !expect.is_empty() {
            run.violate("C20", "heap-structure", "root pointer does not match emptiness".into());
            break;
        }
        for j in 0..k {
            let n = &nodes[j];
            let (p, pv, nx, fc) = (n.verif_parent(), n.verif_prev(), n.verif_next(), n.verif_first_child());
            if member[j].is_none() {
                if p.is_some() || pv.is_some() || nx.is_some() || fc.is_some() {
                    run.violate("C20", "stale-links", format!("node n{} is not a member but still carries links (parent {}, prev {}, next {}, first_child {})", j, p.is_some(), pv.is_some(), nx.is_some(), fc.is_some()));
                    break;
                }
                continue;
            }
            let me = addr(&nodes, j);
            let idx_of = |a: *const HeapNode<Key>| (0..k).find(|&x| addr(&nodes, x) == a);
            let mut ok = true;
            if let Some(pa) = p {
                match idx_of(pa) {
                    Some(pi) => {
                        if member[pi].is_none() || member[pi].unwrap() > member[j].unwrap() {
                            ok = false;
                        }
                        if pv.is_none() && nodes[pi].verif_first_child() != Some(me) {
                            ok = false;
                        }
                    }
                    None => ok = false,
                }
            } else if heap.verif_root() != Some(me) || pv.is_some() || nx.is_some() {
                ok = false;
            }
            if let Some(a) = pv {
                ok &= idx_of(a).is_some_and(|x| nodes[x].verif_next() == Some(me) && nodes[x].verif_parent() == p);
            }
            if let Some(a) = nx {
                ok &= idx_of(a).is_some_and(|x| nodes[x].verif_prev() == Some(me) && nodes[x].verif_parent() == p);
            }
            if let Some(a) = fc {
                ok &= idx_of(a).is_some_and(|x| nodes[x].verif_parent() == Some(me) && nodes[x].verif_prev().is_none());
            }
            if !ok {
                run.violate("C20", "heap-structure", format!("links of member n{} are not mutually consistent or violate the heap order", j));
                break;
            }
        }
        if run.want_fp && !run.failed() {
            let mut h = H128::new();
            // shape in pre-order: (node, key, position of parent)
            for (pos, j) in reach.iter().enumerate() {
                let parent_pos = nodes[*j].verif_parent().and_then(|pa| reach.iter().position(|x| addr(&nodes, *x) == pa)).map(|x| x + 1).unwrap_or(0);
                h.bytes(&[pos as u8, *j as u8, member[*j].unwrap(), parent_pos as u8]);
            }
            h.u8(0xff);
            for j in 0..k {
                h.u8(was_member[j] as u8);
            }
            run.fp = h.finish();
        }
    }
    if run.failed() {
        std::mem::forget(nodes);
    } else {
        for j in 0..k {
            if member[j].is_some() {
                let node = unsafe { nodes[j].as_mut().get_unchecked_mut() };
                run.call("remove()", || unsafe { heap.remove(node) });
            }
        }
    }
}
