//! ManualResetEvent world: C14 plus the cross-cutting C01, C17, C18.

use crate::common::lock::{CheckedLock, Noop, PlLock};
use crate::common::*;
use futures_core::future::FusedFuture;
use futures_intrusive::sync::{GenericManualResetEvent, GenericWaitForEventFuture};
use lock_api::RawMutex;
use std::task::Poll;

pub struct EventWorld;

pub const OP_CREATE: u8 = 0;
pub const OP_POLL: u8 = 1;
pub const OP_DROP: u8 = 2;
pub const OP_SET: u8 = 3;
pub const OP_RESET: u8 = 4;
pub const OP_PROBE: u8 = 5;
pub const OP_OBSERVE: u8 = 6;
pub const OP_POLL_RACE: u8 = 7;

pub const CL_LATCHED_READY_WHILE_RESET: u32 = 0;
pub const CL_SET_WITH_TWO_PENDING: u32 = 1;
pub const CL_WAIT_AFTER_RESET: u32 = 2;
pub const CL_DROP_PENDING_WITH_OTHERS: u32 = 3;
pub const CL_DROP_WOKEN: u32 = 4;
pub const CL_REPOLL_PENDING: u32 = 5;
pub const CL_TERMINATED_SEEN: u32 = 6;
pub const CL_SET_WITH_THREE_PENDING: u32 = 7;
pub const CL_WAKER_SWAPPED_THEN_SET: u32 = 8;
pub const CL_PROBE: u32 = 9;
pub const CL_RESET_WITH_PENDING: u32 = 10;
pub const CL_RACING_SET: u32 = 11;

const CLASS_NAMES: &[&str] = &[
    "latched-waiter-completes-after-reset",
    "set-with-two-pending",
    "new-waiter-after-reset-while-old-latched",
    "drop-pending-with-others",
    "drop-woken",
    "repoll-pending",
    "terminated-seen",
    "set-with-three-pending",
    "waker-swapped-then-set",
    "probe",
    "reset-with-pending",
    "poll-racing-with-set",
];

impl World for EventWorld {
    fn id(&self) -> u8 {
        3
    }
    fn shared_wakers(&self) -> bool {
        true
    }
    fn name(&self) -> &'static str {
        "event"
    }
    fn props(&self) -> &'static [&'static str] {
        &["C01", "C14", "C17", "C18"]
    }
    fn configs(&self, tier: Tier) -> Vec<Cfg> {
        // six slots in both tiers: wake-all paths that batch or chunk need more than four waiters
        let k = 6;
        let _ = tier;
        let mut v = Vec::new();
        for flavour in [FL_LOCAL, FL_SYNC, FL_CHECKED] {
            for x in [0u8, 1] {
                v.push(Cfg { flavour, mode: 0, x, y: 0, k, sw: 0 });
            }
        }
        for x in [0u8, 1] {
            v.push(Cfg { flavour: FL_CHECKED, mode: 0, x, y: 1, k, sw: 0 });
        }
        v
    }
    fn enum_configs(&self, tier: Tier) -> Vec<(Cfg, usize)> {
        let k = 3;
        let _ = tier;
        vec![(Cfg { flavour: FL_CHECKED, mode: 0, x: 0, y: 0, k, sw: 0 }, 200), (Cfg { flavour: FL_CHECKED, mode: 0, x: 1, y: 0, k, sw: 0 }, 200)]
    }
    fn specs(&self, cfg: &Cfg) -> Vec<OpSpec> {
        vec![
            spec("create", 20, cfg.k, 0),
            spec("poll", 40, cfg.k, 2),
            spec("drop", 10, cfg.k, 0),
            spec("set", 10, 0, 0),
            spec("reset", 10, 0, 0),
            spec("probe_after_done", 1, cfg.k, 0),
            spec("observe", 1, 0, 0),
            // poll while another thread calls set() at the first instant the internal lock is free
            spec("poll_racing_set", if cfg.y == 1 { 12 } else { 0 }, cfg.k, 2),
        ]
    }
    fn run(&self, cfg: &Cfg, ops: &[Op], run: &mut Run) {
        match cfg.flavour {
            FL_LOCAL => run_m::<Noop>(cfg, ops, run),
            FL_SYNC => run_m::<PlLock>(cfg, ops, run),
            _ => run_m::<CheckedLock>(cfg, ops, run),
        }
    }
    fn nontrivial(&self, prop: &str, c: u64) -> bool {
        let b = |i: u32| c & (1 << i) != 0;
        match prop {
            "C01" => b(CL_DROP_PENDING_WITH_OTHERS) || b(CL_DROP_WOKEN),
            "C14" => b(CL_LATCHED_READY_WHILE_RESET) || (b(CL_RESET_WITH_PENDING) && b(CL_SET_WITH_TWO_PENDING)),
            "C17" => b(CL_REPOLL_PENDING) && b(CL_TERMINATED_SEEN),
            "C18" => b(CL_SET_WITH_THREE_PENDING),
            _ => false,
        }
    }
    fn cfg_desc(&self, cfg: &Cfg) -> String {
        format!("event flavour={} initially_set={} slots={}{}", flavour_name(cfg.flavour), cfg.x == 1, cfg.k, if cfg.y == 1 { " racing-set" } else { "" })
    }
    fn class_names(&self) -> &'static [&'static str] {
        CLASS_NAMES
    }
}

type Fut<'a, M> = GenericWaitForEventFuture<'a, M>;

fn next_where<F>(slots: &[Slot<F>], start: u8, pred: impl Fn(&Slot<F>) -> bool) -> Option<usize> {
    let n = slots.len();
    (0..n).map(|d| (start as usize + d) % n).find(|&i| pred(&slots[i]))
}

fn run_m<M: RawMutex>(cfg: &Cfg, ops: &[Op], run: &mut Run) {
    tls::reset_history();
    tls::set_shared_b(cfg.sw == 1);
    let mut model_set = cfg.x == 1;
    let event: GenericManualResetEvent<M> = GenericManualResetEvent::new(model_set);
    let k = cfg.k as usize;
    // slot.flag = latched (the event was set while the future waited); slot.num = 1 when a reset
    // happened after the latch
    let mut slots: Vec<Slot<Fut<'_, M>>> = (0..k).map(|i| Slot::new(i as u8)).collect();
    let mut swapped: Vec<bool> = vec![false; k];
    let mut snap = Snapshot::default();
    let mut order = Vec::new();

    macro_rules! monitors {
        () => {{
            if !run.failed() {
                monitors(&event, model_set, &slots, &mut snap, &mut order, run);
            }
        }};
    }

    monitors!();
    for (i, op) in ops.iter().enumerate() {
        if run.failed() {
            break;
        }
        run.set_step(i);
        run.steps += 1;
        let op = &recycle(op, &slots, &[OP_CREATE], OP_POLL, OP_DROP);
        tls::clear_op_log();
        tls::alloc_reset();
        let pending_before = slots.iter().filter(|s| s.pending()).count();
        match op.code {
            OP_CREATE => match next_where(&slots, op.a, |s| !s.alive()) {
                Some(s) => {
                    if let Some(f) = run.call("wait()", || event.wait()) {
                        slots[s].install(f);
                        swapped[s] = false;
                        run.note(|| format!("create slot {}", s));
                    }
                }
                None => run.noops += 1,
            },
            OP_POLL => match next_where(&slots, op.a, |s| s.pollable()) {
                Some(s) => {
                    let first = !slots[s].polled;
                    let prev_w = slots[s].last_w;
                    // prediction: first poll completes iff set now; later polls iff latched
                    let predict_ready = if first { model_set } else { slots[s].flag };
                    if first && !model_set && slots.iter().any(|o| o.pending() && o.flag) {
                        run.class(CL_WAIT_AFTER_RESET);
                    }
                    match slots[s].poll(op.b, run) {
                        Some(Poll::Ready(())) => {
                            run.note(|| format!("poll slot {} waker {} -> Ready", s, op.b));
                            if !predict_ready {
                                run.violate(
                                    "C14",
                                    "completed-without-set",
                                    format!("slot {} completed although the event was not set at this poll and was never set since the future's first poll", s),
                                );
                            }
                            if !first && !model_set {
                                run.class(CL_LATCHED_READY_WHILE_RESET);
                            }
                        }
                        Some(Poll::Pending) => {
                            run.note(|| format!("poll slot {} waker {} -> Pending", s, op.b));
                            if predict_ready {
                                run.violate(
                                    "C14",
                                    "set-missed",
                                    format!(
                                        "slot {} returned Pending although the event {}",
                                        s,
                                        if first { "is set at this (first) poll" } else { "was set after the future's first poll" }
                                    ),
                                );
                            }
                            if !first {
                                run.class(CL_REPOLL_PENDING);
                                if prev_w != op.b {
                                    swapped[s] = true;
                                }
                            }
                        }
                        None => {}
                    }
                }
                None => run.noops += 1,
            },
            OP_POLL_RACE if cfg.y == 1 && cfg.flavour == FL_CHECKED => match next_where(&slots, op.a, |s| s.pollable()) {
                Some(s) => {
                    unsafe fn inject<M: RawMutex>(ctx: usize) {
                        (*(ctx as *const GenericManualResetEvent<M>)).set();
                    }
                    let first = !slots[s].polled;
                    // verdict before the racing set() takes effect
                    let predict_ready = if first { model_set } else { slots[s].flag };
                    tls::install_unlock_hook(&event as *const GenericManualResetEvent<M> as usize, inject::<M>);
                    let r = slots[s].poll(op.b, run);
                    let (fired, relocked) = tls::remove_unlock_hook();
                    if !fired && !run.failed() {
                        // the poll never released the internal lock: the other thread's call comes after it
                        run.call("set()", || event.set());
                    }
                    run.class(CL_RACING_SET);
                    match r {
                        Some(Poll::Ready(())) => {
                            run.note(|| format!("poll slot {} waker {} racing with set() -> Ready (set() ran inside the poll: {}, poll locked again afterwards: {})", s, op.b, fired, relocked));
                            // a poll that looks at the event again after the set() may see it
                            if !predict_ready && !relocked {
                                run.violate("C14", "completed-without-set", format!("slot {} completed although the event was not set when the poll looked at it", s));
                            }
                        }
                        Some(Poll::Pending) => {
                            run.note(|| format!("poll slot {} waker {} racing with set() -> Pending (set() ran inside the poll: {}, poll locked again afterwards: {})", s, op.b, fired, relocked));
                            if predict_ready {
                                run.violate("C14", "set-missed", format!("slot {} returned Pending although the event was set before this poll", s));
                            }
                        }
                        None => {}
                    }
                    model_set = true;
                    for s in slots.iter_mut() {
                        if s.pending() {
                            s.flag = true;
                        }
                    }
                    // whichever way the two calls interleaved: the event is set now, so every pending
                    // waiter - the racing one included - has been woken through its latest waker
                    for (j, s) in slots.iter().enumerate() {
                        if s.pending() && !s.woken() && !run.failed() {
                            run.violate("C14", "set-did-not-wake", format!("after a set() that raced with the poll of slot {}, slot {} is pending and has not been woken through its latest waker", op.a, j));
                        }
                    }
                }
                None => run.noops += 1,
            },
            OP_DROP => match next_where(&slots, op.a, |s| s.alive()) {
                Some(s) => {
                    if slots[s].pending() {
                        if pending_before >= 2 {
                            run.class(CL_DROP_PENDING_WITH_OTHERS);
                        }
                        if slots[s].woken() {
                            run.class(CL_DROP_WOKEN);
                        }
                    }
                    slots[s].drop_fut(run, "drop(wait future)");
                    run.note(|| format!("drop slot {}", s));
                }
                None => run.noops += 1,
            },
            OP_SET => {
                let unlatched_pending = slots.iter().filter(|s| s.pending() && !s.flag).count();
                if unlatched_pending >= 2 {
                    run.class(CL_SET_WITH_TWO_PENDING);
                }
                if unlatched_pending >= 3 {
                    run.class(CL_SET_WITH_THREE_PENDING);
                }
                if slots.iter().enumerate().any(|(j, s)| s.pending() && !s.flag && swapped[j]) {
                    run.class(CL_WAKER_SWAPPED_THEN_SET);
                }
                run.call("set()", || event.set());
                model_set = true;
                for s in slots.iter_mut() {
                    if s.pending() {
                        s.flag = true;
                    }
                }
                run.note(|| "set".to_string());
                // set() wakes every pending waiter through its latest waker
                for (j, s) in slots.iter().enumerate() {
                    if s.pending() && !s.woken() && !run.failed() {
                        run.violate("C14", "set-did-not-wake", format!("after set() slot {} is pending and has not been woken through its latest waker", j));
                    }
                }
            }
            OP_RESET => {
                let wakes_before = tls::total_wakes();
                if pending_before >= 1 {
                    run.class(CL_RESET_WITH_PENDING);
                }
                run.call("reset()", || event.reset());
                model_set = false;
                run.note(|| "reset".to_string());
                if tls::total_wakes() != wakes_before && !run.failed() {
                    run.violate("C14", "reset-woke", "reset() invoked a waker".into());
                }
            }
            OP_PROBE => {
                if !run.allow_probe {
                    run.noops += 1;
                } else {
                    match next_where(&slots, op.a, |s| s.alive() && s.done) {
                        Some(s) => {
                            run.class(CL_PROBE);
                            slots[s].probe_after_done(run, "event wait future");
                            run.note(|| format!("probe slot {} after completion", s));
                        }
                        None => run.noops += 1,
                    }
                }
            }
            _ => {
                run.call("is_set()", || event.is_set());
            }
        }
        let (a, d) = tls::alloc_counts();
        if (a, d) != (0, 0) && !run.failed() {
            run.violate("C18", "allocation", format!("op {:?} performed {} allocations and {} deallocations", op, a, d));
        }
        monitors!();
    }

    let fp_end = run.fp;
    if !run.failed() {
        run.set_step(ops.len());
        for s in 0..k {
            if slots[s].alive() && !run.failed() {
                slots[s].drop_fut(run, "drop(wait future)");
                monitors!();
            }
        }
        if tls::waker_overdrop() && !run.failed() {
            run.violate("C01", "waker-dropped-twice", "a waker was dropped more often than it was cloned".into());
        }
    }
    run.fp = fp_end;
    if run.failed() {
        for s in slots.iter_mut() {
            s.leak();
        }
    }
}

fn monitors<M: RawMutex>(event: &GenericManualResetEvent<M>, model_set: bool, slots: &[Slot<Fut<'_, M>>], snap: &mut Snapshot, order: &mut Vec<(u8, u8, u8, u8, u64)>, run: &mut Run) {
    let is_set = event.is_set();
    if is_set != model_set {
        run.violate("C14", "is_set-mismatch", format!("is_set() == {} but the last set/reset call says {}", is_set, model_set));
        if run.failed() {
            return;
        }
    }
    // a latched waiter has been woken
    for (i, s) in slots.iter().enumerate() {
        if s.pending() && s.flag && !s.woken() {
            run.violate("C14", "latched-not-woken", format!("slot {} waited across a set() and holds no wake-up through its latest waker", i));
            if run.failed() {
                return;
            }
        }
    }
    for (i, s) in slots.iter().enumerate() {
        if let Some(f) = s.fut.as_ref() {
            let t = f.is_terminated();
            if t {
                run.class(CL_TERMINATED_SEEN);
            }
            if t != s.done {
                run.violate("C17", "is_terminated-mismatch", format!("slot {}: is_terminated() == {} but completed == {}", i, t, s.done));
                if run.failed() {
                    return;
                }
            }
        }
    }
    snap.clear();
    event.verif_snapshot(&mut |it| snap.push(it));
    let views: Views = slots
        .iter()
        .enumerate()
        .map(|(i, s)| SlotView { queue: 0, idx: i as u8, range: s.range(), pending: s.pending(), woken: s.woken() })
        .collect();
    check_list_queues(snap, &[0], &views, run, order, "C14");
    if run.want_fp {
        let mut h = H128::new();
        h.u8(model_set as u8);
        for s in slots {
            h.bytes(&[s.alive() as u8, s.polled as u8, s.done as u8, s.last_w, s.woken() as u8, s.flag as u8]);
        }
        for o in order.iter() {
            h.bytes(&[o.0, o.1, o.2, o.3]);
        }
        run.fp = h.finish();
    }
}
