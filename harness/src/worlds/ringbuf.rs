//! Ring buffer world (C19): ArrayBuf, FixedHeapBuf, GrowingHeapBuf against a VecDeque reference.

use crate::common::payload::{self, Tagged};
use crate::common::*;
use futures_intrusive::buffer::{ArrayBuf, FixedHeapBuf, GrowingHeapBuf, RingBuf};
use std::collections::VecDeque;

pub struct RingBufWorld;

pub const OP_PUSH: u8 = 0;
pub const OP_POP: u8 = 1;
pub const OP_OBSERVE: u8 = 2;
pub const OP_DROP_HELD: u8 = 3;

pub const CL_WRAPPED: u32 = 0;
pub const CL_DROPPED_NONEMPTY: u32 = 1;
pub const CL_FULL_SEEN: u32 = 2;
pub const CL_EMPTY_AFTER_USE: u32 = 3;
pub const CL_ZERO_CAP: u32 = 4;

const CLASS_NAMES: &[&str] = &["index-wrapped", "dropped-non-empty", "full-seen", "emptied-after-use", "zero-capacity"];

pub const BUF_ARRAY: u8 = 0;
pub const BUF_FIXED: u8 = 1;
pub const BUF_GROWING: u8 = 2;

/// burst sizes of push / pop in mode 3
const BURST: [usize; 4] = [1, 4, 16, 40];
const ARRAY96: usize = 96;

/// A backing array as described in the documentation of `RealArray`.
pub struct Array96([Tagged; ARRAY96]);

unsafe impl futures_intrusive::buffer::RealArray<Tagged> for Array96 {
    const LEN: usize = ARRAY96;
}

impl AsMut<[Tagged]> for Array96 {
    fn as_mut(&mut self) -> &mut [Tagged] {
        &mut self.0
    }
}

impl AsRef<[Tagged]> for Array96 {
    fn as_ref(&self) -> &[Tagged] {
        &self.0
    }
}

impl World for RingBufWorld {
    fn id(&self) -> u8 {
        8
    }
    fn name(&self) -> &'static str {
        "ringbuf"
    }
    fn props(&self) -> &'static [&'static str] {
        &["C19"]
    }
    fn configs(&self, _tier: Tier) -> Vec<Cfg> {
        let mut v = Vec::new();
        for y in [BUF_ARRAY, BUF_FIXED, BUF_GROWING] {
            for x in 0..=8u8 {
                v.push(Cfg { flavour: 0, mode: 0, x, y, k: 0, sw: 0 });
            }
            // constructed with new(): ArrayBuf keeps its array length, the heap buffers have capacity 0
            v.push(Cfg { flavour: 0, mode: 1, x: if y == BUF_ARRAY { 3 } else { 0 }, y, k: 0, sw: 0 });
            // zero-sized elements (signal channels): only counts can be compared
            for x in [0u8, 2, 3] {
                v.push(Cfg { flavour: 0, mode: 2, x, y, k: 0, sw: 0 });
            }
        }
        // a user provided `RealArray` newtype (96 slots, neither <= 64 nor a power of two), as the
        // trait's documentation invites; x = number of push+pop pairs that rotate the indices
        // first, pushes and pops come in bursts of 1 / 4 / 16 / 40
        for x in [0u8, 31, 63, 95] {
            v.push(Cfg { flavour: 0, mode: 3, x, y: BUF_ARRAY, k: 0, sw: 0 });
        }
        // the largest array type the crate provides (`[T; 65536]`): pre-filled up to 48 below
        // full after x rotations by 255 slots (255 pushes, 255 pops), then bursts of pushes / pops
        for x in [0u8, 1, 255] {
            v.push(Cfg { flavour: 0, mode: 4, x, y: BUF_ARRAY, k: 0, sw: 0 });
        }
        v
    }
    fn enum_configs(&self, tier: Tier) -> Vec<(Cfg, usize)> {
        let mut v = Vec::new();
        let depth = if tier == Tier::Quick { 40 } else { 60 };
        for y in [BUF_ARRAY, BUF_FIXED, BUF_GROWING] {
            for x in 0..=4u8 {
                v.push((Cfg { flavour: 0, mode: 0, x, y, k: 0, sw: 0 }, depth));
            }
        }
        v
    }
    fn specs(&self, cfg: &Cfg) -> Vec<OpSpec> {
        let bursts = if cfg.mode == 3 || cfg.mode == 4 { BURST.len() as u8 } else { 0 };
        vec![spec("push", 30, 0, bursts), spec("pop", 24, 0, bursts), spec("observe", 2, 0, 0), spec("drop_value", 6, 3, 0)]
    }
    fn run(&self, cfg: &Cfg, ops: &[Op], run: &mut Run) {
        if cfg.mode == 4 {
            return run_big(cfg.x as usize, ops, run);
        }
        if cfg.mode == 3 {
            let mut ex: Vec<Op> = Vec::new();
            for _ in 0..cfg.x {
                ex.push(Op { code: OP_PUSH, a: 0, b: 0 });
                ex.push(Op { code: OP_POP, a: 0, b: 0 });
            }
            for op in ops {
                let n = if op.code == OP_PUSH || op.code == OP_POP { BURST[op.b as usize % BURST.len()] } else { 1 };
                for _ in 0..n {
                    ex.push(Op { code: op.code, a: op.a, b: 0 });
                }
            }
            return run_b::<ArrayBuf<Tagged, Array96>>(ArrayBuf::new(), ARRAY96, &ex, run);
        }
        if cfg.mode == 2 {
            let c = cfg.x as usize;
            return match (cfg.y, cfg.x) {
                (BUF_ARRAY, 0) => run_zst::<ArrayBuf<Zst, [Zst; 0]>>(ArrayBuf::new(), 0, ops, run),
                (BUF_ARRAY, 2) => run_zst::<ArrayBuf<Zst, [Zst; 2]>>(ArrayBuf::new(), 2, ops, run),
                (BUF_ARRAY, _) => run_zst::<ArrayBuf<Zst, [Zst; 3]>>(ArrayBuf::new(), 3, ops, run),
                (BUF_FIXED, _) => run_zst::<FixedHeapBuf<Zst>>(FixedHeapBuf::with_capacity(c), c, ops, run),
                _ => run_zst::<GrowingHeapBuf<Zst>>(GrowingHeapBuf::with_capacity(c), c, ops, run),
            };
        }
        let new = cfg.mode == 1;
        let c = cfg.x as usize;
        macro_rules! arr {
            ($n:expr) => {
                run_b::<ArrayBuf<Tagged, [Tagged; $n]>>(if new { ArrayBuf::new() } else { ArrayBuf::with_capacity(c) }, $n, ops, run)
            };
        }
        match cfg.y {
            BUF_ARRAY => match cfg.x {
                0 => arr!(0),
                1 => arr!(1),
                2 => arr!(2),
                3 => arr!(3),
                4 => arr!(4),
                5 => arr!(5),
                6 => arr!(6),
                7 => arr!(7),
                _ => arr!(8),
            },
            BUF_FIXED => run_b::<FixedHeapBuf<Tagged>>(if new { FixedHeapBuf::new() } else { FixedHeapBuf::with_capacity(c) }, if new { 0 } else { c }, ops, run),
            _ => run_b::<GrowingHeapBuf<Tagged>>(if new { GrowingHeapBuf::new() } else { GrowingHeapBuf::with_capacity(c) }, if new { 0 } else { c }, ops, run),
        }
    }
    fn nontrivial(&self, prop: &str, c: u64) -> bool {
        let b = |i: u32| c & (1 << i) != 0;
        match prop {
            "C19" => (b(CL_WRAPPED) && b(CL_DROPPED_NONEMPTY)) || b(CL_ZERO_CAP),
            _ => false,
        }
    }
    fn cfg_desc(&self, cfg: &Cfg) -> String {
        format!(
            "{} {} capacity={}",
            match cfg.y {
                BUF_ARRAY => "ArrayBuf",
                BUF_FIXED => "FixedHeapBuf",
                _ => "GrowingHeapBuf",
            },
            match cfg.mode {
                1 => "new()",
                2 => "with_capacity(), zero-sized elements",
                3 => "over a user provided RealArray newtype of 96 slots, bursts, indices rotated by x first, x",
                4 => "over [T; 65536] (largest provided array), pre-filled to 48 below full after x rotations by 255 slots, bursts, x",
                _ => "with_capacity()",
            },
            cfg.x
        )
    }
    fn class_names(&self) -> &'static [&'static str] {
        CLASS_NAMES
    }
}

fn run_b<B: RingBuf<Item = Tagged>>(buf: B, cap: usize, ops: &[Op], run: &mut Run) {
    tls::reset_history();
    payload::reset();
    run.panic_prop = Some("C19");
    let mut buf = buf;
    let mut model: VecDeque<u16> = VecDeque::new();
    let mut held: Vec<Tagged> = Vec::with_capacity(4);
    let mut pushes: usize = 0;
    if cap == 0 {
        run.class(CL_ZERO_CAP);
    }
    let observe = |buf: &B, model: &VecDeque<u16>, run: &mut Run| {
        let (len, empty, can, capacity) = (buf.len(), buf.is_empty(), buf.can_push(), buf.capacity());
        if capacity != cap {
            run.violate("C19", "capacity", format!("capacity() == {} but the buffer was constructed with capacity {}", capacity, cap));
        } else if len != model.len() {
            run.violate("C19", "len", format!("len() == {} but {} elements are stored", len, model.len()));
        } else if empty != model.is_empty() {
            run.violate("C19", "is_empty", format!("is_empty() == {} with {} stored elements", empty, model.len()));
        } else if can != (model.len() < cap) {
            run.violate("C19", "can_push", format!("can_push() == {} with {} stored elements and capacity {}", can, model.len(), cap));
        }
    };
    observe(&buf, &model, run);
    for (i, op) in ops.iter().enumerate() {
        if run.failed() {
            break;
        }
        run.set_step(i);
        run.steps += 1;
        match op.code {
            OP_PUSH => {
                // the sequence respects can_push(): push only when the buffer says so (the
                // answer itself was compared with the model by `observe`)
                if model.len() < cap {
                    match Tagged::fresh() {
                        Some(v) => {
                            let id = v.id;
                            if run.call("push()", || buf.push(v)).is_some() {
                                model.push_back(id);
                                pushes += 1;
                                if pushes > cap {
                                    run.class(CL_WRAPPED);
                                }
                                if model.len() == cap {
                                    run.class(CL_FULL_SEEN);
                                }
                                run.note(|| format!("push(v{})", id));
                            }
                        }
                        None => run.noops += 1,
                    }
                } else {
                    run.noops += 1;
                }
            }
            OP_POP => {
                if let Some(expect) = model.pop_front() {
                    if let Some(v) = run.call("pop()", || buf.pop()) {
                        run.note(|| format!("pop() -> v{}", v.id));
                        if v.id != expect {
                            run.violate("C19", "fifo", format!("pop() returned v{} but v{} was inserted first", v.id, expect));
                        }
                        if model.is_empty() {
                            run.class(CL_EMPTY_AFTER_USE);
                        }
                        if held.len() >= 3 {
                            held.remove(0);
                        }
                        held.push(v);
                    }
                } else {
                    run.noops += 1;
                }
            }
            OP_DROP_HELD => {
                if held.is_empty() {
                    run.noops += 1;
                } else {
                    let idx = op.a as usize % held.len();
                    held.remove(idx);
                }
            }
            _ => {}
        }
        if !run.failed() {
            observe(&buf, &model, run);
            // the buffer never drops an element on its own
            for id in model.iter() {
                if payload::drops(*id) != 0 {
                    run.violate("C19", "stored-element-dropped", format!("v{} is stored in the buffer but has been dropped", id));
                    break;
                }
            }
        }
        if run.want_fp && !run.failed() {
            // stored count, read index position (pushes mod cap) and held count define the state
            let mut h = H128::new();
            h.u64(model.len() as u64);
            h.u64(if cap == 0 { 0 } else { (pushes % cap) as u64 });
            h.u64(held.len() as u64);
            run.fp = h.finish();
        }
    }
    if run.failed() {
        std::mem::forget(buf);
        while let Some(v) = held.pop() {
            std::mem::forget(v);
        }
        return;
    }
    run.set_step(ops.len());
    if !model.is_empty() {
        run.class(CL_DROPPED_NONEMPTY);
    }
    // popped elements the harness still holds must not be dropped by the buffer
    let held_ids: Vec<u16> = held.iter().map(|v| v.id).collect();
    if run.call("drop(buffer)", || drop(buf)).is_none() {
        return;
    }
    for id in model.iter() {
        let d = payload::drops(*id);
        if d != 1 {
            run.violate("C19", "drop-stored", format!("dropping the buffer dropped the stored element v{} {} times", id, d));
            if run.failed() {
                return;
            }
        }
    }
    for id in held_ids {
        if payload::drops(id) != 0 {
            run.violate("C19", "drop-popped", format!("dropping the buffer dropped v{} which had been popped", id));
            if run.failed() {
                return;
            }
        }
    }
    held.clear();
    for id in 0..payload::ids() as u16 {
        if payload::drops(id) != 1 {
            run.violate("C19", "drop-count", format!("v{} was dropped {} times in total", id, payload::drops(id)));
            if run.failed() {
                return;
            }
        }
    }
}

/// A zero-sized element whose drops are counted.
pub struct Zst;

thread_local! {
    static ZST_DROPS: std::cell::Cell<u64> = const { std::cell::Cell::new(0) };
}

impl Drop for Zst {
    fn drop(&mut self) {
        let _ = ZST_DROPS.try_with(|c| c.set(c.get() + 1));
    }
}

fn zst_drops() -> u64 {
    ZST_DROPS.with(|c| c.get())
}

/// The same model with zero-sized elements: identities do not exist, counts must still agree.
const BIG: usize = 65536;
const BIG_IDS: usize = 1 << 18;

thread_local! {
    /// drop counts of the elements of the 64k configuration, indexed by value
    static BIG_DROPS: std::cell::RefCell<Vec<u8>> = const { std::cell::RefCell::new(Vec::new()) };
}

/// Element of the 64k configuration: a number with a drop count per number.
pub struct Num(u32);

impl Drop for Num {
    fn drop(&mut self) {
        BIG_DROPS.with(|d| {
            if let Some(c) = d.borrow_mut().get_mut(self.0 as usize) {
                *c = c.saturating_add(1);
            }
        })
    }
}

/// `ArrayBuf<Num, [Num; 65536]>`: values are consecutive numbers, so the FIFO reference is a pair
/// of counters; every element must be dropped exactly once (by the harness after a pop, or by the
/// buffer's `Drop`).
fn run_big(rot: usize, ops: &[Op], run: &mut Run) {
    tls::reset_history();
    run.panic_prop = Some("C19");
    BIG_DROPS.with(|d| {
        let mut d = d.borrow_mut();
        d.clear();
        d.resize(BIG_IDS, 0);
    });
    let mut buf: Box<ArrayBuf<Num, [Num; BIG]>> = Box::new(ArrayBuf::new());
    let (mut next_push, mut next_pop): (u32, u32) = (0, 0);
    let observe = |buf: &ArrayBuf<Num, [Num; BIG]>, stored: usize, run: &mut Run| {
        let (len, empty, can, capacity) = (buf.len(), buf.is_empty(), buf.can_push(), buf.capacity());
        if capacity != BIG {
            run.violate("C19", "capacity", format!("capacity() == {} for ArrayBuf<_, [_; 65536]>", capacity));
        } else if len != stored {
            run.violate("C19", "len", format!("len() == {} but {} elements are stored", len, stored));
        } else if empty != (stored == 0) {
            run.violate("C19", "is_empty", format!("is_empty() == {} with {} stored elements", empty, stored));
        } else if can != (stored < BIG) {
            run.violate("C19", "can_push", format!("can_push() == {} with {} stored elements and capacity {}", can, stored, BIG));
        }
    };
    // n pushes / pops inside one library call (sequence respects can_push() / is_empty())
    let burst = |buf: &mut ArrayBuf<Num, [Num; BIG]>, push: bool, n: usize, next_push: &mut u32, next_pop: &mut u32, run: &mut Run| {
        let (mut np, mut npop) = (*next_push, *next_pop);
        let mut bad: Option<(u32, u32)> = None;
        let r = run.call(if push { "push()" } else { "pop()" }, || {
            for _ in 0..n {
                if push {
                    if (np - npop) as usize >= BIG || np as usize >= BIG_IDS {
                        break;
                    }
                    buf.push(Num(np));
                    np += 1;
                } else {
                    if np == npop {
                        break;
                    }
                    let v = buf.pop();
                    if v.0 != npop && bad.is_none() {
                        bad = Some((v.0, npop));
                    }
                    npop += 1;
                    drop(v);
                }
            }
        });
        if r.is_some() {
            *next_push = np;
            *next_pop = npop;
            if let Some((got, want)) = bad {
                run.violate("C19", "fifo", format!("pop() returned element {} but element {} was inserted first", got, want));
            }
        }
    };
    observe(&buf, 0, run);
    for _ in 0..rot {
        burst(&mut buf, true, 255, &mut next_push, &mut next_pop, run);
        burst(&mut buf, false, 255, &mut next_push, &mut next_pop, run);
    }
    if !run.failed() {
        burst(&mut buf, true, BIG - 48, &mut next_push, &mut next_pop, run);
        run.note(|| format!("{} rotations by 255 slots, then {} pushes", rot, BIG - 48));
    }
    for (i, op) in ops.iter().enumerate() {
        if run.failed() {
            break;
        }
        run.set_step(i);
        run.steps += 1;
        let n = BURST[op.b as usize % BURST.len()];
        match op.code {
            OP_PUSH => {
                burst(&mut buf, true, n, &mut next_push, &mut next_pop, run);
                run.note(|| format!("push x{} (stored {})", n, next_push - next_pop));
            }
            OP_POP => {
                burst(&mut buf, false, n, &mut next_push, &mut next_pop, run);
                run.note(|| format!("pop x{} (stored {})", n, next_push - next_pop));
            }
            _ => run.noops += 1,
        }
        let stored = (next_push - next_pop) as usize;
        if stored == BIG {
            run.class(CL_FULL_SEEN);
        }
        if next_push as usize > BIG {
            run.class(CL_WRAPPED);
        }
        if !run.failed() {
            observe(&buf, stored, run);
        }
        if run.want_fp && !run.failed() {
            let mut h = H128::new();
            h.u64(stored as u64);
            h.u64(next_push as u64 % BIG as u64);
            run.fp = h.finish();
        }
    }
    if run.failed() {
        std::mem::forget(buf);
        return;
    }
    if next_push != next_pop {
        run.class(CL_DROPPED_NONEMPTY);
    }
    if run.call("drop(buffer)", || drop(buf)).is_none() {
        return;
    }
    BIG_DROPS.with(|d| {
        let d = d.borrow();
        for v in 0..next_push as usize {
            if d[v] != 1 {
                run.violate("C19", "drop-count", format!("element {} was dropped {} times after the buffer is gone (popped up to {}, pushed up to {})", v, d[v], next_pop, next_push));
                break;
            }
        }
    });
}

fn run_zst<B: RingBuf<Item = Zst>>(buf: B, cap: usize, ops: &[Op], run: &mut Run) {
    tls::reset_history();
    run.panic_prop = Some("C19");
    ZST_DROPS.with(|c| c.set(0));
    let mut buf = buf;
    let mut stored: usize = 0;
    let mut pushes: usize = 0;
    let mut popped_alive: Vec<Zst> = Vec::new();
    let mut harness_drops: u64 = 0;
    if cap == 0 {
        run.class(CL_ZERO_CAP);
    }
    let observe = |buf: &B, stored: usize, run: &mut Run| {
        let (len, empty, can, capacity) = (buf.len(), buf.is_empty(), buf.can_push(), buf.capacity());
        if capacity != cap {
            run.violate("C19", "capacity", format!("capacity() == {} but the buffer was constructed with capacity {} (zero-sized elements)", capacity, cap));
        } else if len != stored {
            run.violate("C19", "len", format!("len() == {} but {} elements are stored", len, stored));
        } else if empty != (stored == 0) {
            run.violate("C19", "is_empty", format!("is_empty() == {} with {} stored elements", empty, stored));
        } else if can != (stored < cap) {
            run.violate("C19", "can_push", format!("can_push() == {} with {} stored elements and capacity {}", can, stored, cap));
        }
    };
    observe(&buf, stored, run);
    for (i, op) in ops.iter().enumerate() {
        if run.failed() {
            break;
        }
        run.set_step(i);
        run.steps += 1;
        match op.code {
            OP_PUSH => {
                if stored < cap {
                    if run.call("push()", || buf.push(Zst)).is_some() {
                        stored += 1;
                        pushes += 1;
                        if pushes > cap {
                            run.class(CL_WRAPPED);
                        }
                        if stored == cap {
                            run.class(CL_FULL_SEEN);
                        }
                        run.note(|| "push(zst)".to_string());
                    }
                } else {
                    run.noops += 1;
                }
            }
            OP_POP => {
                if stored > 0 {
                    if let Some(v) = run.call("pop()", || buf.pop()) {
                        stored -= 1;
                        run.note(|| "pop() -> zst".to_string());
                        if stored == 0 {
                            run.class(CL_EMPTY_AFTER_USE);
                        }
                        if popped_alive.len() >= 3 {
                            popped_alive.remove(0);
                            harness_drops += 1;
                        }
                        popped_alive.push(v);
                    }
                } else {
                    run.noops += 1;
                }
            }
            OP_DROP_HELD => {
                if popped_alive.is_empty() {
                    run.noops += 1;
                } else {
                    popped_alive.remove(op.a as usize % popped_alive.len());
                    harness_drops += 1;
                }
            }
            _ => {}
        }
        if !run.failed() {
            observe(&buf, stored, run);
            if zst_drops() != harness_drops {
                run.violate("C19", "stored-element-dropped", format!("{} elements were dropped but the harness dropped only {} popped ones", zst_drops(), harness_drops));
            }
        }
        if run.want_fp && !run.failed() {
            let mut h = H128::new();
            h.u64(stored as u64);
            h.u64(if cap == 0 { 0 } else { (pushes % cap) as u64 });
            h.u64(popped_alive.len() as u64);
            run.fp = h.finish();
        }
    }
    if run.failed() {
        std::mem::forget(buf);
        std::mem::forget(popped_alive);
        return;
    }
    run.set_step(ops.len());
    if stored > 0 {
        run.class(CL_DROPPED_NONEMPTY);
    }
    if run.call("drop(buffer)", || drop(buf)).is_none() {
        return;
    }
    if zst_drops() != harness_drops + stored as u64 {
        run.violate("C19", "drop-stored", format!("dropping the buffer with {} stored zero-sized elements dropped {} of them", stored, zst_drops() - harness_drops));
    }
}
