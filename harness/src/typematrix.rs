//! Driver M (C16): the enumerated type matrix. Every public type constructor of the crate is
//! instantiated with witness types for lock / payload / buffer; the trait solver's verdict on
//! Send / Sync / Unpin is read at run time through the "inherent const shadows trait const" trick
//! and compared with a hand-written rule table (DESIGN.md Appendix C).

use futures_intrusive::buffer::{ArrayBuf, FixedHeapBuf, GrowingHeapBuf, RingBuf};
use futures_intrusive::channel::shared as sh;
use futures_intrusive::channel::*;
use futures_intrusive::sync::*;
use futures_intrusive::timer::*;
use lock_api::{GuardNoSend, RawMutex};
use std::cell::Cell;
use std::collections::VecDeque;
use std::marker::PhantomData;
use std::rc::Rc;
use std::sync::atomic::{AtomicBool, Ordering};

// ---------------------------------------------------------------------------------------------
// the probe

pub struct P<T: ?Sized>(PhantomData<T>);
pub trait Fallback {
    const SEND: bool = false;
    const SYNC: bool = false;
    const UNPIN: bool = false;
    const TIMER: bool = false;
}
impl<T: ?Sized> Fallback for P<T> {}
#[allow(dead_code)]
impl<T: ?Sized + Send> P<T> {
    pub const SEND: bool = true;
}
#[allow(dead_code)]
impl<T: ?Sized + Sync> P<T> {
    pub const SYNC: bool = true;
}
#[allow(dead_code)]
impl<T: ?Sized + Unpin> P<T> {
    pub const UNPIN: bool = true;
}
#[allow(dead_code)]
impl<T: ?Sized + Timer> P<T> {
    pub const TIMER: bool = true;
}

// ---------------------------------------------------------------------------------------------
// witnesses

/// payload: Send + Sync
#[derive(Clone)]
pub struct TSS(pub u8);
/// payload: Send, !Sync
#[derive(Clone)]
pub struct TSn(pub Cell<u8>);
/// payload: !Send, Sync
#[derive(Clone)]
pub struct TnS(pub PhantomData<*const ()>);
unsafe impl Sync for TnS {}
/// payload: !Send, !Sync
#[derive(Clone)]
pub struct Tnn(pub PhantomData<*const ()>);

/// lock: Sync, !Send
pub struct SyncOnlyLock(AtomicBool, PhantomData<*const ()>);
unsafe impl Sync for SyncOnlyLock {}
/// lock: Send, !Sync
pub struct SendOnlyLock(AtomicBool, PhantomData<Cell<()>>);

macro_rules! raw_mutex {
    ($t:ident) => {
        unsafe impl RawMutex for $t {
            #[allow(clippy::declare_interior_mutable_const)]
            const INIT: $t = $t(AtomicBool::new(false), PhantomData);
            type GuardMarker = GuardNoSend;
            fn lock(&self) {
                while self.0.swap(true, Ordering::Acquire) {
                    std::hint::spin_loop();
                }
            }
            fn try_lock(&self) -> bool {
                !self.0.swap(true, Ordering::Acquire)
            }
            unsafe fn unlock(&self) {
                self.0.store(false, Ordering::Release)
            }
        }
    };
}
raw_mutex!(SyncOnlyLock);
raw_mutex!(SendOnlyLock);

/// buffer: a safe ring buffer that is never Send (it shares an `Rc`)
pub struct RcBuf<T> {
    q: VecDeque<T>,
    cap: usize,
    _rc: Rc<()>,
}
impl<T> RingBuf for RcBuf<T> {
    type Item = T;
    fn new() -> Self {
        RcBuf { q: VecDeque::new(), cap: 0, _rc: Rc::new(()) }
    }
    fn with_capacity(cap: usize) -> Self {
        RcBuf { q: VecDeque::new(), cap, _rc: Rc::new(()) }
    }
    fn capacity(&self) -> usize {
        self.cap
    }
    fn len(&self) -> usize {
        self.q.len()
    }
    fn can_push(&self) -> bool {
        self.q.len() != self.cap
    }
    fn push(&mut self, item: T) {
        self.q.push_back(item)
    }
    fn pop(&mut self) -> T {
        self.q.pop_front().unwrap()
    }
}

type Noop = futures_intrusive::verif::NoopLock;
type Pl = parking_lot::RawMutex;

// ---------------------------------------------------------------------------------------------
// rows

#[derive(Clone, Copy, Debug, Default)]
pub struct Facts {
    pub ms: bool,
    pub my: bool,
    pub ts: bool,
    pub ty: bool,
    pub a_s: bool,
}

#[derive(Clone, Debug)]
pub struct Row {
    pub family: &'static str,
    pub name: String,
    pub facts: Facts,
    pub send: bool,
    pub sync: bool,
    pub unpin: bool,
}

#[derive(Clone, Debug)]
pub struct CtorRow {
    pub name: String,
    pub shared: bool,
    pub future_send: bool,
    pub owner_send: bool,
    pub owner_sync: bool,
}

macro_rules! cell {
    ($rows:ident, $fam:expr, $name:expr, $f:expr, $ty:ty) => {
        $rows.push(Row { family: $fam, name: $name, facts: $f, send: <P<$ty>>::SEND, sync: <P<$ty>>::SYNC, unpin: <P<$ty>>::UNPIN });
    };
}

macro_rules! ctor {
    ($rows:ident, $name:expr, $shared:expr, $owner:ty, $fut:ty) => {
        $rows.push(CtorRow { name: $name, shared: $shared, future_send: <P<$fut>>::SEND, owner_send: <P<$owner>>::SEND, owner_sync: <P<$owner>>::SYNC });
    };
}

macro_rules! per_m {
    ($rows:ident, $ctors:ident, $timer:ident, $m:ty, $mn:expr, $ms:expr, $my:expr) => {{
        let f = Facts { ms: $ms, my: $my, ts: true, ty: true, a_s: true };
        cell!($rows, "primitive-m", format!("GenericSemaphore<{}>", $mn), f, GenericSemaphore<$m>);
        cell!($rows, "primitive-m", format!("GenericManualResetEvent<{}>", $mn), f, GenericManualResetEvent<$m>);
        cell!($rows, "primitive-m", format!("GenericTimerService<{}>", $mn), f, GenericTimerService<$m>);
        cell!($rows, "borrowed-future-m", format!("GenericSemaphoreAcquireFuture<'_,{}>", $mn), f, GenericSemaphoreAcquireFuture<'static, $m>);
        cell!($rows, "borrowed-future-m", format!("GenericWaitForEventFuture<'_,{}>", $mn), f, GenericWaitForEventFuture<'static, $m>);
        cell!($rows, "borrowed-releaser-m", format!("GenericSemaphoreReleaser<'_,{}>", $mn), f, GenericSemaphoreReleaser<'static, $m>);
        cell!($rows, "shared-handle-m", format!("GenericSharedSemaphore<{}>", $mn), f, GenericSharedSemaphore<$m>);
        cell!($rows, "shared-handle-m", format!("GenericSharedSemaphoreReleaser<{}>", $mn), f, GenericSharedSemaphoreReleaser<$m>);
        cell!($rows, "shared-future-m", format!("GenericSharedSemaphoreAcquireFuture<{}>", $mn), f, GenericSharedSemaphoreAcquireFuture<$m>);
        ctor!($ctors, format!("GenericSemaphore<{}>::acquire -> GenericSemaphoreAcquireFuture", $mn), false, GenericSemaphore<$m>, GenericSemaphoreAcquireFuture<'static, $m>);
        ctor!($ctors, format!("GenericManualResetEvent<{}>::wait -> GenericWaitForEventFuture", $mn), false, GenericManualResetEvent<$m>, GenericWaitForEventFuture<'static, $m>);
        ctor!($ctors, format!("GenericSharedSemaphore<{}>::acquire -> GenericSharedSemaphoreAcquireFuture", $mn), true, GenericSharedSemaphore<$m>, GenericSharedSemaphoreAcquireFuture<$m>);
        $timer.push((format!("GenericTimerService<{}>: Timer", $mn), <P<GenericTimerService<$m>>>::TIMER, $my));
    }};
}

macro_rules! per_mt {
    ($rows:ident, $ctors:ident, $m:ty, $mn:expr, $ms:expr, $my:expr, $t:ty, $tn:expr, $ts:expr, $ty_:expr) => {{
        let f = Facts { ms: $ms, my: $my, ts: $ts, ty: $ty_, a_s: true };
        let n = |s: &str| format!("{}<{},{}>", s, $mn, $tn);
        let nl = |s: &str| format!("{}<'_,{},{}>", s, $mn, $tn);
        cell!($rows, "primitive-mt", n("GenericMutex"), f, GenericMutex<$m, $t>);
        cell!($rows, "mutex-guard", nl("GenericMutexGuard"), f, GenericMutexGuard<'static, $m, $t>);
        cell!($rows, "borrowed-future-mt", nl("GenericMutexLockFuture"), f, GenericMutexLockFuture<'static, $m, $t>);
        cell!($rows, "primitive-mt", n("GenericOneshotChannel"), f, GenericOneshotChannel<$m, $t>);
        cell!($rows, "primitive-mt", n("GenericOneshotBroadcastChannel"), f, GenericOneshotBroadcastChannel<$m, $t>);
        cell!($rows, "primitive-mt", n("GenericStateBroadcastChannel"), f, GenericStateBroadcastChannel<$m, $t>);
        cell!($rows, "borrowed-future-mt", nl("ChannelReceiveFuture"), f, ChannelReceiveFuture<'static, $m, $t>);
        cell!($rows, "borrowed-future-mt", nl("ChannelSendFuture"), f, ChannelSendFuture<'static, $m, $t>);
        cell!($rows, "borrowed-future-mt", nl("StateReceiveFuture"), f, StateReceiveFuture<'static, $m, $t>);
        cell!($rows, "shared-handle-mt", n("shared::GenericOneshotSender"), f, sh::GenericOneshotSender<$m, $t>);
        cell!($rows, "shared-handle-mt", n("shared::GenericOneshotReceiver"), f, sh::GenericOneshotReceiver<$m, $t>);
        cell!($rows, "shared-handle-mt", n("shared::GenericOneshotBroadcastSender"), f, sh::GenericOneshotBroadcastSender<$m, $t>);
        cell!($rows, "shared-handle-mt", n("shared::GenericOneshotBroadcastReceiver"), f, sh::GenericOneshotBroadcastReceiver<$m, $t>);
        cell!($rows, "shared-handle-mt", n("shared::GenericStateSender"), f, sh::GenericStateSender<$m, $t>);
        cell!($rows, "shared-handle-mt", n("shared::GenericStateReceiver"), f, sh::GenericStateReceiver<$m, $t>);
        cell!($rows, "shared-future-mt", n("shared::ChannelReceiveFuture"), f, sh::ChannelReceiveFuture<$m, $t>);
        cell!($rows, "shared-future-mt", n("shared::ChannelSendFuture"), f, sh::ChannelSendFuture<$m, $t>);
        cell!($rows, "shared-future-mt", n("shared::StateReceiveFuture"), f, sh::StateReceiveFuture<$m, $t>);
        ctor!($ctors, format!("{}::lock -> GenericMutexLockFuture", n("GenericMutex")), false, GenericMutex<$m, $t>, GenericMutexLockFuture<'static, $m, $t>);
        ctor!($ctors, format!("{}::receive -> ChannelReceiveFuture", n("GenericOneshotChannel")), false, GenericOneshotChannel<$m, $t>, ChannelReceiveFuture<'static, $m, $t>);
        ctor!($ctors, format!("{}::receive -> ChannelReceiveFuture", n("GenericOneshotBroadcastChannel")), false, GenericOneshotBroadcastChannel<$m, $t>, ChannelReceiveFuture<'static, $m, $t>);
        ctor!($ctors, format!("{}::receive -> StateReceiveFuture", n("GenericStateBroadcastChannel")), false, GenericStateBroadcastChannel<$m, $t>, StateReceiveFuture<'static, $m, $t>);
        ctor!($ctors, format!("{}::receive -> shared::ChannelReceiveFuture", n("shared::GenericOneshotReceiver")), true, sh::GenericOneshotReceiver<$m, $t>, sh::ChannelReceiveFuture<$m, $t>);
        ctor!($ctors, format!("{}::receive -> shared::ChannelReceiveFuture", n("shared::GenericOneshotBroadcastReceiver")), true, sh::GenericOneshotBroadcastReceiver<$m, $t>, sh::ChannelReceiveFuture<$m, $t>);
        ctor!($ctors, format!("{}::receive -> shared::StateReceiveFuture", n("shared::GenericStateReceiver")), true, sh::GenericStateReceiver<$m, $t>, sh::StateReceiveFuture<$m, $t>);
    }};
}

macro_rules! per_mta {
    ($rows:ident, $ctors:ident, $m:ty, $mn:expr, $ms:expr, $my:expr, $t:ty, $tn:expr, $ts:expr, $ty_:expr, $a:ty, $an:expr, $as_:expr) => {{
        let f = Facts { ms: $ms, my: $my, ts: $ts, ty: $ty_, a_s: $as_ };
        let n = |s: &str| format!("{}<{},{},{}>", s, $mn, $tn, $an);
        cell!($rows, "channel-mta", n("GenericChannel"), f, GenericChannel<$m, $t, $a>);
        cell!($rows, "stream-mta", format!("ChannelStream<'_,{},{},{}>", $mn, $tn, $an), f, ChannelStream<'static, $m, $t, $a>);
        cell!($rows, "shared-handle-mta", n("shared::GenericSender"), f, sh::GenericSender<$m, $t, $a>);
        cell!($rows, "shared-handle-mta", n("shared::GenericReceiver"), f, sh::GenericReceiver<$m, $t, $a>);
        cell!($rows, "shared-stream-mta", n("shared::SharedStream"), f, sh::SharedStream<$m, $t, $a>);
        ctor!($ctors, format!("{}::receive -> ChannelReceiveFuture<'_,{},{}>", n("GenericChannel"), $mn, $tn), false, GenericChannel<$m, $t, $a>, ChannelReceiveFuture<'static, $m, $t>);
        ctor!($ctors, format!("{}::send -> ChannelSendFuture<'_,{},{}>", n("GenericChannel"), $mn, $tn), false, GenericChannel<$m, $t, $a>, ChannelSendFuture<'static, $m, $t>);
        ctor!($ctors, format!("{}::stream -> ChannelStream", n("GenericChannel")), false, GenericChannel<$m, $t, $a>, ChannelStream<'static, $m, $t, $a>);
        ctor!($ctors, format!("{}::receive -> shared::ChannelReceiveFuture<{},{}>", n("shared::GenericReceiver"), $mn, $tn), true, sh::GenericReceiver<$m, $t, $a>, sh::ChannelReceiveFuture<$m, $t>);
        ctor!($ctors, format!("{}::send -> shared::ChannelSendFuture<{},{}>", n("shared::GenericSender"), $mn, $tn), true, sh::GenericSender<$m, $t, $a>, sh::ChannelSendFuture<$m, $t>);
    }};
}

macro_rules! for_payloads {
    ($mac:ident, $rows:ident, $ctors:ident, $m:ty, $mn:expr, $ms:expr, $my:expr) => {{
        $mac!($rows, $ctors, $m, $mn, $ms, $my, TSS, "SendSync", true, true);
        $mac!($rows, $ctors, $m, $mn, $ms, $my, TSn, "SendNotSync", true, false);
        $mac!($rows, $ctors, $m, $mn, $ms, $my, TnS, "NotSendSync", false, true);
        $mac!($rows, $ctors, $m, $mn, $ms, $my, Tnn, "NotSendNotSync", false, false);
    }};
}

macro_rules! per_mt_buffers {
    ($rows:ident, $ctors:ident, $m:ty, $mn:expr, $ms:expr, $my:expr, $t:ty, $tn:expr, $ts:expr, $ty_:expr) => {{
        per_mta!($rows, $ctors, $m, $mn, $ms, $my, $t, $tn, $ts, $ty_, ArrayBuf<$t, [$t; 1]>, "ArrayBuf", $ts);
        per_mta!($rows, $ctors, $m, $mn, $ms, $my, $t, $tn, $ts, $ty_, FixedHeapBuf<$t>, "FixedHeapBuf", $ts);
        per_mta!($rows, $ctors, $m, $mn, $ms, $my, $t, $tn, $ts, $ty_, GrowingHeapBuf<$t>, "GrowingHeapBuf", $ts);
        per_mta!($rows, $ctors, $m, $mn, $ms, $my, $t, $tn, $ts, $ty_, RcBuf<$t>, "RcBuf", false);
    }};
}

pub struct Matrix {
    pub rows: Vec<Row>,
    pub ctors: Vec<CtorRow>,
    /// (name, verdict, lock is Sync)
    pub timer_impl: Vec<(String, bool, bool)>,
    /// sanity of the probe mechanism and the witnesses: (name, send, sync, expected send, expected sync)
    pub witnesses: Vec<(&'static str, bool, bool, bool, bool)>,
}

pub fn build() -> Matrix {
    let mut rows: Vec<Row> = Vec::new();
    let mut ctors: Vec<CtorRow> = Vec::new();
    let mut timer: Vec<(String, bool, bool)> = Vec::new();
    macro_rules! lock {
        ($m:ty, $mn:expr, $ms:expr, $my:expr) => {{
            per_m!(rows, ctors, timer, $m, $mn, $ms, $my);
            for_payloads!(per_mt, rows, ctors, $m, $mn, $ms, $my);
            for_payloads!(per_mt_buffers, rows, ctors, $m, $mn, $ms, $my);
        }};
    }
    // intended facts of the locks; NoopLock must be neither Send nor Sync usable across threads
    lock!(Noop, "NoopLock", false, false);
    lock!(Pl, "parking_lot", true, true);
    lock!(SyncOnlyLock, "SyncOnlyLock", false, true);
    lock!(SendOnlyLock, "SendOnlyLock", true, false);
    let ft = Facts { ms: true, my: true, ts: true, ty: true, a_s: true };
    cell!(rows, "timer-future", "TimerFuture<'_>".to_string(), ft, TimerFuture<'static>);
    cell!(rows, "local-timer-future", "LocalTimerFuture<'_>".to_string(), ft, LocalTimerFuture<'static>);
    cell!(rows, "noop-lock", "NoopLock".to_string(), ft, Noop);
    let witnesses = vec![
        ("SendSync payload", <P<TSS>>::SEND, <P<TSS>>::SYNC, true, true),
        ("SendNotSync payload", <P<TSn>>::SEND, <P<TSn>>::SYNC, true, false),
        ("NotSendSync payload", <P<TnS>>::SEND, <P<TnS>>::SYNC, false, true),
        ("NotSendNotSync payload", <P<Tnn>>::SEND, <P<Tnn>>::SYNC, false, false),
        ("parking_lot::RawMutex", <P<Pl>>::SEND, <P<Pl>>::SYNC, true, true),
        ("SyncOnlyLock", <P<SyncOnlyLock>>::SEND, <P<SyncOnlyLock>>::SYNC, false, true),
        ("SendOnlyLock", <P<SendOnlyLock>>::SEND, <P<SendOnlyLock>>::SYNC, true, false),
        ("RcBuf", <P<RcBuf<TSS>>>::SEND, <P<RcBuf<TSS>>>::SYNC, false, false),
        ("u32", <P<u32>>::SEND, <P<u32>>::SYNC, true, true),
        ("Rc<u32>", <P<Rc<u32>>>::SEND, <P<Rc<u32>>>::SYNC, false, false),
        ("Cell<u32>", <P<Cell<u32>>>::SEND, <P<Cell<u32>>>::SYNC, true, false),
    ];
    Matrix { rows, ctors, timer_impl: timer, witnesses }
}

// ---------------------------------------------------------------------------------------------
// the rule table

#[derive(Clone, Copy, Debug, PartialEq, Eq)]
pub enum Bound {
    /// no rule for this cell
    DontCare,
    /// verdict must equal the value (upper and lower bound)
    Exactly(bool),
    /// verdict may be true only if the value is true (soundness)
    AtMost(bool),
}

/// (send rule, sync rule, must be !Unpin)
pub fn rules(family: &str, f: &Facts) -> (Bound, Bound, bool) {
    use Bound::*;
    let Facts { ms, my, ts, ty, a_s } = *f;
    match family {
        // GenericSemaphore / ManualResetEvent / TimerService
        "primitive-m" => (Exactly(ms), Exactly(my), false),
        // GenericMutex, oneshot, oneshot broadcast, state broadcast channels
        "primitive-mt" => (Exactly(ms && ts), Exactly(my && ts), false),
        "channel-mta" => (Exactly(ms && ts && a_s), Exactly(my && ts && a_s), false),
        // a guard gives &T / &mut T and unlocks through &GenericMutex
        "mutex-guard" => (AtMost(my && ts), Exactly(ty), false),
        "borrowed-future-m" => (Exactly(my), DontCare, true),
        "borrowed-releaser-m" => (Exactly(my), AtMost(my), false),
        "borrowed-future-mt" => (Exactly(my && ts), DontCare, true),
        "stream-mta" => (AtMost(my && ts && a_s), DontCare, true),
        // Arc owning handles: the last owner may drop (and so move) lock and payload on any thread
        "shared-handle-m" => (Exactly(ms && my), Exactly(ms && my), false),
        "shared-handle-mt" => (Exactly(ms && my && ts), Exactly(ms && my && ts), false),
        "shared-handle-mta" => (Exactly(ms && my && ts && a_s), Exactly(ms && my && ts && a_s), false),
        "shared-future-m" => (Exactly(ms && my), DontCare, true),
        "shared-future-mt" => (Exactly(ms && my && ts), DontCare, true),
        "shared-stream-mta" => (AtMost(ms && my && ts && a_s), DontCare, true),
        // documented Send; only obtainable from a Sync service (checked by the Timer impl probe)
        "timer-future" => (Exactly(true), DontCare, true),
        "local-timer-future" => (AtMost(false), DontCare, true),
        "noop-lock" => (DontCare, AtMost(false), false),
        _ => (DontCare, DontCare, false),
    }
}

#[derive(Clone, Debug)]
pub struct Finding {
    /// stable signature used by known_findings.json
    pub signature: String,
    pub detail: String,
}

pub struct Verdict {
    pub cells: u64,
    pub cells_with_rule: u64,
    pub findings: Vec<Finding>,
}

pub fn evaluate(m: &Matrix) -> Verdict {
    let mut cells = 0u64;
    let mut ruled = 0u64;
    let mut findings = Vec::new();
    for (name, s, y, es, ey) in &m.witnesses {
        cells += 2;
        ruled += 2;
        if s != es || y != ey {
            findings.push(Finding { signature: format!("witness {}", name), detail: format!("probe mechanism / witness broken: {} is Send={} Sync={}, expected Send={} Sync={}", name, s, y, es, ey) });
        }
    }
    for r in &m.rows {
        let (send_rule, sync_rule, not_unpin) = rules(r.family, &r.facts);
        let mut one = |tr: &str, verdict: bool, rule: Bound| {
            cells += 1;
            match rule {
                Bound::DontCare => {}
                Bound::Exactly(v) => {
                    ruled += 1;
                    if verdict && !v {
                        findings.push(Finding { signature: format!("{}: {} (unsound)", r.name, tr), detail: format!("{} is {} although that is not sound for lock Send={} Sync={}, payload Send={} Sync={}, buffer Send={}", r.name, tr, r.facts.ms, r.facts.my, r.facts.ts, r.facts.ty, r.facts.a_s) });
                    } else if !verdict && v {
                        findings.push(Finding { signature: format!("{}: !{} (documented guarantee lost)", r.name, tr), detail: format!("{} is not {} although everything it makes reachable tolerates it (lock Send={} Sync={}, payload Send={} Sync={}, buffer Send={})", r.name, tr, r.facts.ms, r.facts.my, r.facts.ts, r.facts.ty, r.facts.a_s) });
                    }
                }
                Bound::AtMost(v) => {
                    ruled += 1;
                    if verdict && !v {
                        findings.push(Finding { signature: format!("{}: {} (unsound)", r.name, tr), detail: format!("{} is {} although that is not sound for lock Send={} Sync={}, payload Send={} Sync={}, buffer Send={}", r.name, tr, r.facts.ms, r.facts.my, r.facts.ts, r.facts.ty, r.facts.a_s) });
                    }
                }
            }
        };
        one("Send", r.send, send_rule);
        one("Sync", r.sync, sync_rule);
        cells += 1;
        if not_unpin {
            ruled += 1;
            if r.unpin {
                findings.push(Finding { signature: format!("{}: Unpin", r.name), detail: format!("{} embeds a wait node but is Unpin: safe code can move it after its first poll", r.name) });
            }
        }
    }
    for (name, verdict, my) in &m.timer_impl {
        cells += 1;
        ruled += 1;
        if *verdict && !*my {
            findings.push(Finding { signature: format!("{} (unsound)", name), detail: format!("{}: the Send `TimerFuture` can be obtained from a service whose lock is not Sync", name) });
        }
        if !*verdict && *my {
            findings.push(Finding { signature: format!("!{} (documented guarantee lost)", name), detail: format!("{} does not hold although the lock is Sync", name) });
        }
    }
    for c in &m.ctors {
        cells += 1;
        ruled += 1;
        let ok = if !c.future_send {
            true
        } else if c.shared {
            c.owner_send && c.owner_sync
        } else {
            c.owner_sync
        };
        if !ok {
            findings.push(Finding {
                signature: format!("ctor {}: future Send while owner {}", c.name, if c.shared { "!Send/!Sync" } else { "!Sync" }),
                detail: format!(
                    "{}: the returned future is Send although the object it was obtained from is {} (Send={}, Sync={}): the future reaches that object's state from another thread",
                    c.name,
                    if c.shared { "not Send+Sync" } else { "not Sync" },
                    c.owner_send,
                    c.owner_sync
                ),
            });
        }
    }
    Verdict { cells, cells_with_rule: ruled, findings }
}
