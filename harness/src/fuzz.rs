//! Byte level entry points for driver F (cargo-fuzz / libFuzzer + AddressSanitizer).
//! Input format: byte 0 selects the configuration (index into `all_cfgs`), then 3 bytes per op
//! (op selector, argument a, argument b), decoded with the same monotone maps as driver R.

use crate::common::*;
use crate::drivers::Failure;

pub const MAX_OPS: usize = 200;

/// Every configuration any tier uses for this world, in a stable order.
pub fn all_cfgs(world: &dyn World) -> Vec<Cfg> {
    let mut v: Vec<Cfg> = Vec::new();
    for t in [Tier::Quick, Tier::Thorough] {
        v.extend(all_configs(world, t));
        v.extend(all_enum_configs(world, t).into_iter().map(|(c, _)| c));
    }
    v.sort();
    v.dedup();
    v
}

pub fn decode(world: &dyn World, data: &[u8]) -> Option<(Cfg, Vec<Op>)> {
    let mut u = arbitrary_lite::Bytes::new(data);
    let cfgs = all_cfgs(world);
    let ci = u.byte()? as usize % cfgs.len();
    let cfg = cfgs[ci];
    let specs = world.specs(&cfg);
    let total: u32 = specs.iter().map(|s| s.weight).sum();
    let mut ops = Vec::new();
    while ops.len() < MAX_OPS {
        let (Some(s), Some(a), Some(b)) = (u.byte(), u.byte(), u.byte()) else { break };
        ops.push(decode_op(&specs, total, ((s as u16) << 8 | s as u16, a, b)));
    }
    Some((cfg, ops))
}

/// Inverse of `decode` (for corpus seeds made from JSON histories). Exact for op arguments;
/// the op selector byte is chosen so that it decodes to the same op code.
pub fn encode(world: &dyn World, cfg: &Cfg, ops: &[Op]) -> Option<Vec<u8>> {
    let cfgs = all_cfgs(world);
    let ci = cfgs.iter().position(|c| c == cfg)?;
    let specs = world.specs(cfg);
    let total: u32 = specs.iter().map(|s| s.weight).sum();
    let mut out = vec![ci as u8];
    for op in ops {
        let sel = (0..=255u8).find(|s| decode_op(&specs, total, ((*s as u16) << 8 | *s as u16, 0, 0)).code == op.code)?;
        let sp = &specs[op.code as usize];
        let a = (0..=255u8).find(|x| sp.an == 0 || ((*x as u32 * sp.an as u32) >> 8) as u8 == op.a)?;
        let b = (0..=255u8).find(|x| sp.bn == 0 || ((*x as u32 * sp.bn as u32) >> 8) as u8 == op.b)?;
        out.extend_from_slice(&[sel, a, b]);
    }
    Some(out)
}

/// Runs one fuzz input. Returns the failure (any property) if a monitor fired.
pub fn run_bytes(world: &dyn World, data: &[u8]) -> Option<Failure> {
    let (cfg, ops) = decode(world, data)?;
    let mut run = Run::new();
    run.allow_probe = false; // libFuzzer aborts on any panic, even a caught one
    world.run(&cfg, &ops, &mut run);
    run.violation.map(|violation| Failure { world: world.name(), cfg, ops, violation, driver: "fuzz" })
}

/// Entry used by the fuzz targets: a monitor violation aborts with a message naming the property.
pub fn fuzz_one(world_name: &str, data: &[u8]) {
    let world = crate::worlds::by_name(world_name).expect("world");
    if let Some(f) = run_bytes(world, data) {
        let specs = world.specs(&f.cfg);
        eprintln!(
            "MONITOR-VIOLATION property={} kind={} world={} config=[{}] detail={} history={}",
            f.violation.prop,
            f.violation.kind,
            f.world,
            world.describe(&f.cfg),
            f.violation.detail,
            f.ops.iter().map(|o| op_to_string(&specs, o)).collect::<Vec<_>>().join(" ")
        );
        std::process::abort();
    }
}

mod arbitrary_lite {
    pub struct Bytes<'a> {
        d: &'a [u8],
        i: usize,
    }
    impl<'a> Bytes<'a> {
        pub fn new(d: &'a [u8]) -> Self {
            Bytes { d, i: 0 }
        }
        pub fn byte(&mut self) -> Option<u8> {
            let b = self.d.get(self.i).copied();
            self.i += 1;
            b
        }
    }
}
