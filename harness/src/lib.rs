//! fi_verif: property-based testing / fuzzing harness for futures-intrusive.
//! See /verif/DESIGN.md.

pub mod common;
pub mod drivers;
pub mod fuzz;
pub mod known;
pub mod plan;
pub mod typematrix;
pub mod worlds;

#[global_allocator]
static GLOBAL: common::tls::CountingAlloc = common::tls::CountingAlloc;
