//! Driver U: replays JSON-lines histories (produced natively by `fi_check gen-sample`, i.e. by the
//! proptest generator with a fixed seed) under Miri. Prints `BEGIN <n>` before every history so
//! that the wrapper can name the culprit when Miri aborts.
use fi_verif::common::*;
use fi_verif::drivers::{cfg_from_json, ops_from_json};
use serde_json::Value;

fn main() {
    let args: Vec<String> = std::env::args().collect();
    let path = args.get(1).expect("usage: fi_miri <histories.jsonl> [property]");
    let prop: &'static str = match args.get(2).map(|s| s.as_str()) {
        Some("C19") => "C19",
        Some("C20") => "C20",
        _ => "C01",
    };
    // dropped futures are freed at once, so that any access to a dangling wait node is UB that Miri reports
    fi_verif::common::tls::set_quarantine(false);
    let text = std::fs::read_to_string(path).expect("read histories");
    let mut n = 0usize;
    let mut violations = 0usize;
    for line in text.lines() {
        let Ok(doc) = serde_json::from_str::<Value>(line) else { continue };
        let Some(world) = doc.get("world").and_then(|w| w.as_str()).and_then(fi_verif::worlds::by_name) else { continue };
        let Some(cfg) = doc.get("config").and_then(cfg_from_json) else { continue };
        let specs = world.specs(&cfg);
        let Some(ops) = doc.get("ops").and_then(|o| ops_from_json(&specs, o)) else { continue };
        println!("BEGIN {}", n);
        let mut run = Run::for_prop(prop);
        // the expected panic of the probe is exercised natively; keep Miri runs panic free
        run.allow_probe = false;
        world.run(&cfg, &ops, &mut run);
        if let Some(v) = &run.violation {
            println!("MONITOR-VIOLATION {} property={} kind={} detail={}", n, v.prop, v.kind, v.detail);
            violations += 1;
        }
        n += 1;
    }
    fi_verif::common::tls::reset_history();
    println!("DONE {} histories, {} monitor violations", n, violations);
}
