//! CLI of the harness. Used by /verif/check.
//!
//!   fi_check check --prop C03 --tier quick|thorough [--seed N] [--verif-dir /verif]
//!   fi_check replay <file>
//!   fi_check gen-sample --world mutex --count N --seed S      (histories for the Miri driver)

use fi_verif::common::*;
use fi_verif::drivers::enumerate::{run_enum, EnumParams};
use fi_verif::drivers::random::{run_random, RandomParams};
use fi_verif::drivers::*;
use fi_verif::plan;
use serde_json::{json, Value};
use std::time::Instant;

fn arg(args: &[String], name: &str) -> Option<String> {
    args.iter().position(|a| a == name).and_then(|i| args.get(i + 1).cloned())
}

fn main() {
    fi_verif::common::tls::install_panic_hook();
    let args: Vec<String> = std::env::args().collect();
    let cmd = args.get(1).map(|s| s.as_str()).unwrap_or("");
    let code = match cmd {
        "check" => cmd_check(&args),
        "replay" => cmd_replay(&args),
        "gen-sample" => cmd_gen_sample(&args),
        "encode-fuzz" => cmd_encode_fuzz(&args),
        _ => {
            eprintln!("usage: fi_check check --prop Cxx --tier quick|thorough [--seed N] | replay <file> | gen-sample ...");
            2
        }
    };
    std::process::exit(code);
}

fn verif_dir(args: &[String]) -> String {
    arg(args, "--verif-dir").or_else(|| std::env::var("VERIF_DIR").ok()).unwrap_or_else(|| "/verif".to_string())
}

fn seed_of(args: &[String]) -> u64 {
    arg(args, "--seed").or_else(|| std::env::var("VERIF_SEED").ok()).and_then(|s| s.trim().parse::<i64>().ok()).map(|v| v as u64).unwrap_or(1)
}

fn cmd_check(args: &[String]) -> i32 {
    let prop_s = arg(args, "--prop").expect("--prop");
    let tier_s = arg(args, "--tier").or_else(|| std::env::var("VERIF_TIER").ok()).unwrap_or_else(|| "quick".into());
    let tier = if tier_s == "thorough" { Tier::Thorough } else { Tier::Quick };
    let seed = seed_of(args);
    let vdir = verif_dir(args);
    let Some(mut p) = plan::plan_for(&prop_s) else {
        eprintln!("unknown property {}", prop_s);
        return 2;
    };
    // debugging aid: restrict the run to one world
    if let Ok(only) = std::env::var("VERIF_ONLY_WORLD") {
        p.worlds.retain(|w| w.name() == only);
    }
    let prop: &'static str = p.prop;
    let t0 = Instant::now();
    let mut stats = Stats::new(prop);
    let mut failure: Option<Failure> = None;
    let scale: f64 = std::env::var("VERIF_SCALE").ok().and_then(|s| s.parse().ok()).unwrap_or(1.0);

    // 1. regression files (replay tier): every committed history of every world of this property
    // (VERIF_NO_REGRESS is a debugging aid for sensitivity experiments with a single driver)
    let (replayed, reg_fail) = if std::env::var("VERIF_NO_REGRESS").is_ok() { (0, None) } else { plan::replay_regress(&vdir, prop, &mut stats) };
    if failure.is_none() {
        failure = reg_fail;
    }

    // 2. special (non-world) drivers
    if failure.is_none() {
        if let Some(special) = p.special {
            match special(prop, tier, seed, &vdir, &mut stats) {
                Ok(()) => {}
                Err(f) => {
                    // special drivers write their own replay file
                    finish(&vdir, prop, tier, seed, &stats, t0, 1, replayed);
                    println!("VIOLATION property={} replay={}", prop, f);
                    return 1;
                }
            }
        }
    }

    // 3. driver E on the enumeration configs
    for w in &p.worlds {
        if failure.is_some() {
            break;
        }
        for (cfg, depth) in all_enum_configs(*w, tier) {
            if failure.is_some() {
                break;
            }
            let b = if tier == Tier::Quick { &p.quick } else { &p.thorough };
            if b.enum_max_states == 0 {
                continue;
            }
            let params = EnumParams { max_depth: depth.min(b.enum_depth), max_states: b.enum_max_states };
            let (rep, f) = run_enum(*w, prop, &cfg, &params, &mut stats);
            stats.enum_reports.push(json!({"world": w.name(), "config": w.describe(&cfg), "joint_states": rep.states, "transitions": rep.transitions, "depth": rep.depth, "fixpoint": rep.fixpoint, "depth_bound": params.max_depth}));
            failure = f;
        }
    }

    // 4. driver R
    for w in &p.worlds {
        if failure.is_some() {
            break;
        }
        let b = if tier == Tier::Quick { &p.quick } else { &p.thorough };
        if b.random_cases == 0 {
            continue;
        }
        let cfgs = all_configs(*w, tier);
        let per_cfg = (((b.random_cases as f64) * scale) as u64 / cfgs.len().max(1) as u64).max(16);
        let params = RandomParams { cases_per_cfg: per_cfg, max_len: b.max_len, seed };
        failure = run_random(*w, prop, &cfgs, &params, &mut stats, true);
    }

    // 5. driver F (thorough tiers that ask for it): libFuzzer + AddressSanitizer campaign
    let fuzz_runs = if tier == Tier::Quick { p.quick.fuzz_runs } else { p.thorough.fuzz_runs };
    if failure.is_none() && fuzz_runs > 0 && std::env::var("VERIF_NO_FUZZ").is_err() {
        let out = fi_verif::drivers::fuzzrun::campaign(&vdir, prop, &p.worlds, ((fuzz_runs as f64) * scale) as u64, seed, &mut stats);
        stats.notes.push(out.note.clone());
        if let Some(r) = &out.sanitizer_report {
            stats.notes.push(format!("sanitizer report: {}", r));
        }
        failure = out.failure;
    }

    // 6. driver U (thorough tiers that ask for it): a sample of the histories under Miri
    let miri_n = if tier == Tier::Quick { p.quick.miri_histories } else { p.thorough.miri_histories };
    if failure.is_none() && miri_n > 0 && std::env::var("VERIF_NO_MIRI").is_err() {
        failure = fi_verif::drivers::mirirun::campaign(&vdir, prop, &p.worlds, ((miri_n as f64) * scale.max(0.1)) as usize, seed, &mut stats);
    }

    match failure {
        None => {
            finish(&vdir, prop, tier, seed, &stats, t0, 0, replayed);
            println!(
                "OK property={} tier={} seed={} evaluations={} distinct_nontrivial={} aborted_by_other_property={} wall_s={:.1}",
                prop,
                tier_s,
                seed,
                stats.evaluations,
                stats.nontrivial.len(),
                stats.aborted_by_other_property,
                t0.elapsed().as_secs_f64()
            );
            0
        }
        Some(f) => {
            let w = fi_verif::worlds::by_name(f.world).unwrap();
            let doc = history_json(prop, w, &f.cfg, &f.ops, Some(&f.violation));
            let h = hash_history(w.id(), &f.cfg, &f.ops);
            let dir = format!("{}/out/replays", vdir);
            let _ = std::fs::create_dir_all(&dir);
            let path = format!("{}/{}-{:016x}.json", dir, prop, h as u64);
            std::fs::write(&path, serde_json::to_string_pretty(&doc).unwrap()).expect("write replay");
            finish(&vdir, prop, tier, seed, &stats, t0, 1, replayed);
            println!("violation: {} {} ({} driver, {}): {}", f.violation.prop, f.violation.kind, f.driver, w.describe(&f.cfg), f.violation.detail);
            let specs = w.specs(&f.cfg);
            println!("history: {}", f.ops.iter().map(|o| op_to_string(&specs, o)).collect::<Vec<_>>().join(" "));
            println!("VIOLATION property={} replay={}", prop, path);
            1
        }
    }
}

#[allow(clippy::too_many_arguments)]
fn finish(vdir: &str, prop: &str, tier: Tier, seed: u64, stats: &Stats, t0: Instant, violations: i32, replayed: u64) {
    let p = plan::plan_for(prop).unwrap();
    let mut fallback_samples: Vec<Value> = Vec::new();
    if stats.samples.is_empty() {
        // a run that stopped early (violation in the replay or enumeration stage) still shows what its cases look like
        if let Some(w) = p.worlds.first() {
            for line in plan::gen_sample(*w, 2, 20, seed) {
                if let Ok(v) = serde_json::from_str::<Value>(&line) {
                    fallback_samples.push(v);
                }
            }
        }
    }
    let mut coverage = json!({
        "evaluations": stats.evaluations,
        "distinct_nontrivial": stats.nontrivial.len(),
        "nontrivial_evaluations": stats.nontrivial_seen,
        "rule": p.rule,
        "samples": if stats.samples.is_empty() { &fallback_samples } else { &stats.samples },
        "ops_executed": stats.ops,
        "ops_without_effect": stats.noops,
        "library_calls": stats.lib_calls,
        "per_driver_evaluations": stats.per_driver,
        "class_histogram": stats.class_hist,
        "aborted_by_other_property": stats.aborted_by_other_property,
        "regress_files_replayed": replayed,
        "known_findings_excluded": stats.excluded_known,
    });
    if let Some(e) = &stats.aborted_example {
        coverage["aborted_example"] = json!(e);
    }
    if !stats.enum_reports.is_empty() {
        coverage["enumeration"] = json!(stats.enum_reports);
        let all_fix = stats.enum_reports.iter().all(|r| r["fixpoint"].as_bool() == Some(true));
        coverage["enumeration_all_fixpoints"] = json!(all_fix);
        coverage["states"] = json!(stats.enum_reports.iter().map(|r| r["joint_states"].as_u64().unwrap_or(0)).sum::<u64>());
        coverage["transitions"] = json!(stats.enum_reports.iter().map(|r| r["transitions"].as_u64().unwrap_or(0)).sum::<u64>());
    }
    if let Some(x) = stats.exhaustive_all {
        coverage["exhaustive"] = json!(x);
    }
    let mut notes = stats.notes.clone();
    if let Ok(extra) = std::env::var("VERIF_EXTRA_NOTE") {
        if !extra.is_empty() {
            notes.push(extra);
        }
    }
    if !notes.is_empty() {
        coverage["notes"] = json!(notes);
    }
    let doc = json!({
        "property_id": prop,
        "tier": if tier == Tier::Quick { "quick" } else { "thorough" },
        "seed": seed as i64,
        "level": "exploration",
        "coverage": coverage,
        "assumptions": p.assumptions,
        "wall_s": t0.elapsed().as_secs_f64(),
        "violations": violations,
    });
    let dir = std::env::var("VERIF_EVIDENCE_DIR").unwrap_or_else(|_| format!("{}/evidence", vdir));
    let _ = std::fs::create_dir_all(&dir);
    std::fs::write(format!("{}/{}.json", dir, prop), serde_json::to_string_pretty(&doc).unwrap()).expect("write evidence");
}

fn cmd_replay(args: &[String]) -> i32 {
    let Some(path) = args.get(2) else {
        eprintln!("replay <file>");
        return 2;
    };
    let text = match std::fs::read_to_string(path) {
        Ok(t) => t,
        Err(e) => {
            eprintln!("cannot read {}: {}", path, e);
            return 2;
        }
    };
    let doc: Value = match serde_json::from_str(&text) {
        Ok(v) => v,
        Err(e) => {
            eprintln!("{} is not a JSON replay file: {}", path, e);
            return 2;
        }
    };
    if let Some(code) = plan::replay_special(&doc, path) {
        return code;
    }
    match plan::replay_doc(&doc, true, arg(args, "--prop").as_deref().or(doc.get("property").and_then(|p| p.as_str()))) {
        Err(e) => {
            eprintln!("bad replay file: {}", e);
            2
        }
        Ok((prop, run)) => match run.violation {
            Some(v) => {
                println!("violation: {} {}: {} (after op {})", v.prop, v.kind, v.detail, v.step);
                let want = arg(args, "--prop").unwrap_or(prop);
                println!("VIOLATION property={} replay={}", if v.is(&want) { want } else { v.prop.to_string() }, path);
                1
            }
            None => {
                println!("OK replay of {} (file names property {:?}): no violation", path, prop);
                0
            }
        },
    }
}

fn cmd_gen_sample(args: &[String]) -> i32 {
    let world = arg(args, "--world").expect("--world");
    let count: usize = arg(args, "--count").and_then(|s| s.parse().ok()).unwrap_or(50);
    let len: usize = arg(args, "--len").and_then(|s| s.parse().ok()).unwrap_or(30);
    let seed = seed_of(args);
    let w = fi_verif::worlds::by_name(&world).expect("world");
    for line in plan::gen_sample(w, count, len, seed) {
        println!("{}", line);
    }
    0
}

fn cmd_encode_fuzz(args: &[String]) -> i32 {
    let (Some(src), Some(dst)) = (args.get(2), args.get(3)) else {
        eprintln!("encode-fuzz <history.json> <out.bin>");
        return 2;
    };
    let Ok(text) = std::fs::read_to_string(src) else { return 2 };
    let Ok(doc) = serde_json::from_str::<Value>(&text) else { return 2 };
    let Some(world) = doc.get("world").and_then(|w| w.as_str()).and_then(fi_verif::worlds::by_name) else { return 2 };
    let Some(cfg) = doc.get("config").and_then(cfg_from_json) else { return 2 };
    let specs = world.specs(&cfg);
    let Some(ops) = doc.get("ops").and_then(|o| ops_from_json(&specs, o)) else { return 2 };
    match fi_verif::fuzz::encode(world, &cfg, &ops) {
        Some(b) => {
            if std::fs::write(dst, b).is_err() {
                return 2;
            }
            0
        }
        None => {
            eprintln!("this history cannot be encoded for the fuzz target (configuration not in the fuzz set)");
            2
        }
    }
}
