//! `CheckedLock`: a `RawMutex` for the Generic flavour that turns an internal double lock or an
//! unlock without lock into a panic (instead of a hang / silent corruption).

use lock_api::{GuardSend, RawMutex};
use std::sync::atomic::{AtomicBool, Ordering};

pub struct CheckedLock {
    locked: AtomicBool,
}

unsafe impl RawMutex for CheckedLock {
    #[allow(clippy::declare_interior_mutable_const)]
    const INIT: CheckedLock = CheckedLock { locked: AtomicBool::new(false) };
    type GuardMarker = GuardSend;

    fn lock(&self) {
        if self.locked.swap(true, Ordering::Acquire) {
            panic!("CheckedLock: lock() while already locked (re-entrant internal lock)");
        }
        crate::common::tls::lock_delta(1);
    }

    fn try_lock(&self) -> bool {
        let got = !self.locked.swap(true, Ordering::Acquire);
        if got {
            crate::common::tls::lock_delta(1);
        }
        got
    }

    unsafe fn unlock(&self) {
        if !self.locked.swap(false, Ordering::Release) {
            panic!("CheckedLock: unlock() without lock()");
        }
        crate::common::tls::lock_delta(-1);
    }
}

/// Names the (private) `NoopLock` type of the crate through its public aliases.
pub type Noop = futures_intrusive::verif::NoopLock;
pub type PlLock = parking_lot::RawMutex;
