//! Shared harness concepts: ops, configs, violations, run record, slots, snapshot checks.

pub mod lock;
pub mod payload;
pub mod tls;

use std::future::Future;
use std::pin::Pin;
use std::task::{Context, Poll};

pub use tls::{lib_call, make_waker};

/// One operation of a history: an index into the world's op table plus two small arguments.
#[derive(Clone, Copy, PartialEq, Eq, Hash, Debug, PartialOrd, Ord)]
pub struct Op {
    pub code: u8,
    pub a: u8,
    pub b: u8,
}

/// Describes one op kind of a world under a given config.
#[derive(Clone, Debug)]
pub struct OpSpec {
    pub name: &'static str,
    /// relative weight for the random driver
    pub weight: u32,
    /// number of values of argument a (0 = unused)
    pub an: u8,
    /// number of values of argument b (0 = unused)
    pub bn: u8,
}

pub const fn spec(name: &'static str, weight: u32, an: u8, bn: u8) -> OpSpec {
    OpSpec { name, weight, an, bn }
}

/// World configuration: small numbers with world specific meaning.
#[derive(Clone, Copy, PartialEq, Eq, Hash, Debug, PartialOrd, Ord)]
pub struct Cfg {
    /// 0 = Local (NoopLock), 1 = Sync (parking_lot), 2 = Generic (CheckedLock), 3 = Shared (parking_lot),
    /// 4 = Shared (CheckedLock)
    pub flavour: u8,
    /// fairness / sub-mode
    pub mode: u8,
    /// world specific (initial permits, capacity, ...)
    pub x: u8,
    /// world specific (buffer kind, clock kind, ...)
    pub y: u8,
    /// number of future slots
    pub k: u8,
    /// 1 = waker variant B is one waker shared by all slots (several futures polled by one task:
    /// their wakers `will_wake` each other); 0 = every slot has its own two wakers
    pub sw: u8,
}

pub const FL_LOCAL: u8 = 0;
pub const FL_SYNC: u8 = 1;
pub const FL_CHECKED: u8 = 2;
pub const FL_SHARED: u8 = 3;
pub const FL_SHARED_CHECKED: u8 = 4;

pub fn flavour_name(f: u8) -> &'static str {
    match f {
        0 => "local",
        1 => "sync",
        2 => "checked",
        3 => "shared",
        4 => "shared-checked",
        _ => "?",
    }
}

#[derive(Clone, Debug)]
pub struct Violation {
    pub prop: &'static str,
    /// a second property whose statement the same observation contradicts
    pub also: Option<&'static str>,
    pub kind: &'static str,
    pub detail: String,
    /// index of the op after which the violation was observed (ops.len() = teardown)
    pub step: usize,
}

impl Violation {
    /// does this violation contradict property `p`?
    pub fn is(&self, p: &str) -> bool {
        self.prop == p || self.also == Some(p)
    }
}

/// Result record of executing one history.
pub struct Run {
    /// first violation (the history stops there)
    pub violation: Option<Violation>,
    /// class bits reached (world specific), used by the non-triviality rules
    pub classes: u64,
    /// fingerprint of the joint state after the last op (driver E)
    pub fp: u128,
    pub steps: u32,
    pub noops: u32,
    pub lib_calls: u32,
    /// human readable trace, only collected when `want_trace`
    pub want_trace: bool,
    pub trace: Vec<String>,
    /// allow the "poll after completion" probe (driver R only, not under fuzzing)
    pub allow_probe: bool,
    /// compute fingerprints (driver E); costs a little
    pub want_fp: bool,
    /// known findings excluded by construction in this run (signature -> count)
    pub excluded_known: u32,
    /// the property this run is checked for. For the model-independent properties (C01, C04, C07, C17, C18:
    /// their oracles only use observed facts, never a world's reference model) a violation of
    /// another property does not stop the history, it is kept in `other`.
    pub focus: Option<&'static str>,
    pub other: Option<Violation>,
    /// a second property that a panic inside a library call contradicts in this world, and the
    /// text the panic message must contain (e.g. an arithmetic overflow in the semaphore's permit
    /// accounting is an over-grant: C05)
    pub panic_also: Option<(&'static str, &'static str)>,
    /// the property a panic inside a library call contradicts first in this world (data structure
    /// worlds: a panic of the list / heap / ring buffer on a precondition-respecting sequence is a
    /// failure of C20 / C19 itself); `None` = C01
    pub panic_prop: Option<&'static str>,
    step_now: usize,
}

impl Run {
    pub fn new() -> Run {
        Run {
            violation: None,
            classes: 0,
            fp: 0,
            steps: 0,
            noops: 0,
            lib_calls: 0,
            want_trace: false,
            trace: Vec::new(),
            allow_probe: true,
            want_fp: false,
            excluded_known: 0,
            focus: None,
            other: None,
            panic_also: None,
            panic_prop: None,
            step_now: 0,
        }
    }
    fn keeps_going(&self, prop: &str, also: Option<&str>, kind: &str) -> bool {
        match self.focus {
            // C04 / C07 compare every acquisition with the observed arrival order and nothing else
            Some(f) if matches!(f, "C01" | "C04" | "C07" | "C17" | "C18") => prop != f && also != Some(f) && kind != "panic",
            // Pure observations that leave the reference model untouched do not end the history of
            // a check for another property: an allocation inside a call (C18) and a wrong answer
            // of `is_terminated()` (C17). What the primitive does next is still comparable with the
            // model, and it is often exactly there that the checked property is contradicted.
            Some(f) if prop != f && also != Some(f) => prop == "C18" || (prop == "C17" && kind.ends_with("is_terminated-mismatch")),
            _ => false,
        }
    }
    pub fn for_prop(prop: &'static str) -> Run {
        let mut r = Run::new();
        r.focus = Some(prop);
        r
    }
    pub fn set_step(&mut self, i: usize) {
        self.step_now = i;
    }
    pub fn step(&self) -> usize {
        self.step_now
    }
    pub fn violate(&mut self, prop: &'static str, kind: &'static str, detail: String) {
        if self.keeps_going(prop, None, kind) {
            if self.other.is_none() {
                self.other = Some(Violation { prop, also: None, kind, detail, step: self.step_now });
            }
            return;
        }
        if self.violation.is_none() {
            self.violation = Some(Violation { prop, also: None, kind, detail, step: self.step_now });
        }
    }
    /// a violation that contradicts two properties
    pub fn violate2(&mut self, prop: &'static str, also: &'static str, kind: &'static str, detail: String) {
        if self.keeps_going(prop, Some(also), kind) {
            if self.other.is_none() {
                self.other = Some(Violation { prop, also: Some(also), kind, detail, step: self.step_now });
            }
            return;
        }
        if self.violation.is_none() {
            self.violation = Some(Violation { prop, also: Some(also), kind, detail, step: self.step_now });
        }
    }
    pub fn failed(&self) -> bool {
        self.violation.is_some()
    }
    pub fn class(&mut self, bit: u32) {
        self.classes |= 1u64 << bit;
    }
    pub fn has(&self, bit: u32) -> bool {
        self.classes & (1u64 << bit) != 0
    }
    pub fn note(&mut self, f: impl FnOnce() -> String) {
        if self.want_trace {
            let s = f();
            self.trace.push(s);
        }
    }
    /// Executes one library call; a panic is a C01 violation (contract respecting history).
    pub fn call<R>(&mut self, what: &'static str, f: impl FnOnce() -> R) -> Option<R> {
        self.lib_calls += 1;
        match lib_call(f) {
            Ok(v) => Some(v),
            Err(msg) => {
                match (self.panic_prop, self.panic_also) {
                    (Some(p), _) => self.violate2(p, "C01", "panic", format!("{} panicked: {}", what, msg)),
                    (None, Some((also, needle))) if msg.contains(needle) => self.violate2("C01", also, "panic", format!("{} panicked: {}", what, msg)),
                    _ => self.violate("C01", "panic", format!("{} panicked: {}", what, msg)),
                }
                None
            }
        }
    }
}

impl Default for Run {
    fn default() -> Self {
        Self::new()
    }
}

// ---------------------------------------------------------------------------------------------
// FNV style 128 bit hashing for fingerprints / distinctness

#[derive(Clone, Copy)]
pub struct H128(pub u128);

impl H128 {
    pub fn new() -> H128 {
        H128(0x6c62272e07bb014262b821756295c58d)
    }
    #[inline]
    pub fn u8(&mut self, v: u8) {
        self.0 ^= v as u128;
        self.0 = self.0.wrapping_mul(0x0000000001000000000000000000013b);
    }
    #[inline]
    pub fn u64(&mut self, v: u64) {
        for b in v.to_le_bytes() {
            self.u8(b);
        }
    }
    pub fn bytes(&mut self, v: &[u8]) {
        for b in v {
            self.u8(*b);
        }
    }
    pub fn finish(&self) -> u128 {
        // final avalanche
        let mut x = self.0;
        x ^= x >> 67;
        x = x.wrapping_mul(0x9E3779B97F4A7C15F39CC0605CEDC835);
        x ^= x >> 61;
        x
    }
}

impl Default for H128 {
    fn default() -> Self {
        Self::new()
    }
}

pub fn hash_history(world: u8, cfg: &Cfg, ops: &[Op]) -> u128 {
    let mut h = H128::new();
    h.u8(world);
    h.bytes(&[cfg.flavour, cfg.mode, cfg.x, cfg.y, cfg.k, cfg.sw]);
    for o in ops {
        h.bytes(&[o.code, o.a, o.b]);
    }
    h.finish()
}

/// Converts a value to the (identical) type a generic caller expects; `None` when the types
/// differ. Lets a world generic over lock and buffer type go through the crate's convenience
/// constructors (`channel()`, `unbuffered_channel()`, `oneshot_channel()` ...) in the one
/// instantiation they are defined for.
pub fn retype<A: 'static, B: 'static>(a: A) -> Option<B> {
    let b: Box<dyn std::any::Any> = Box::new(a);
    b.downcast::<B>().ok().map(|b| *b)
}

// ---------------------------------------------------------------------------------------------
// Slots

/// A future slot plus the harness-side knowledge ("shadow") the property statements talk about.
pub struct Slot<F> {
    pub fut: Option<Pin<Box<F>>>,
    /// waker id base: wakers of this slot are `wid*2` (A) and `wid*2+1` (B)
    pub wid: u8,
    pub polled: bool,
    pub done: bool,
    pub cancelled: bool,
    pub last_w: u8,
    /// logical time at which the most recent poll began
    pub poll_seq: u64,
    /// logical time of the poll that started the current wait (0 = not waiting yet)
    pub arrival: u64,
    pub polls: u32,
    /// world specific number (request size, requested id index, deadline, value id ...)
    pub num: u64,
    /// world specific flag
    pub flag: bool,
}

impl<F> Slot<F> {
    pub fn new(wid: u8) -> Slot<F> {
        Slot {
            fut: None,
            wid,
            polled: false,
            done: false,
            cancelled: false,
            last_w: 0,
            poll_seq: 0,
            arrival: 0,
            polls: 0,
            num: 0,
            flag: false,
        }
    }
    pub fn alive(&self) -> bool {
        self.fut.is_some()
    }
    /// alive, polled at least once, not completed, not cancelled
    pub fn pending(&self) -> bool {
        self.fut.is_some() && self.polled && !self.done && !self.cancelled
    }
    /// alive and may still be polled
    pub fn pollable(&self) -> bool {
        self.fut.is_some() && !self.done && !self.cancelled
    }
    /// identity of waker variant `w` of this slot
    pub fn waker_id_for(&self, w: u8) -> usize {
        if w == 1 && tls::shared_b() {
            tls::SHARED_WAKER
        } else {
            self.wid as usize * 2 + w as usize
        }
    }
    /// identity of the waker passed to the most recent poll
    pub fn waker_id(&self) -> usize {
        self.waker_id_for(self.last_w)
    }
    /// the waker passed to the most recent poll has been invoked since that poll began (with a
    /// shared waker: the task polling this future has been woken)
    pub fn woken(&self) -> bool {
        self.polled && tls::last_wake(self.waker_id()) > self.poll_seq
    }
    pub fn range(&self) -> Option<(usize, usize)> {
        self.fut.as_ref().map(|b| {
            let p = &**b as *const F as usize;
            (p, p + std::mem::size_of::<F>().max(1))
        })
    }
    /// installs a freshly created future
    pub fn install(&mut self, f: F) {
        debug_assert!(self.fut.is_none());
        let wid = self.wid;
        *self = Slot::new(wid);
        self.fut = Some(Box::pin(f));
    }
    /// Runs the future's destructor as a library call (allocation guard armed, panics caught) and
    /// frees the box outside of it, so that the harness' own deallocation is not counted.
    pub fn drop_fut(&mut self, run: &mut Run, what: &'static str) {
        if let Some(b) = self.fut.take() {
            let raw: *mut F = Box::into_raw(unsafe { Pin::into_inner_unchecked(b) });
            run.call(what, || unsafe { std::ptr::drop_in_place(raw) });
            // keep the memory mapped until the history ends (see tls::bury)
            tls::bury(raw as *mut u8, std::alloc::Layout::new::<F>());
        }
        self.clear();
    }
    /// Drop issued from inside `wake()` by a window reaction.
    pub fn drop_in_window(&mut self) {
        if let Some(b) = self.fut.take() {
            let raw: *mut F = Box::into_raw(unsafe { Pin::into_inner_unchecked(b) });
            unsafe { std::ptr::drop_in_place(raw) };
            tls::unarmed(|| tls::bury(raw as *mut u8, std::alloc::Layout::new::<F>()));
        }
        self.clear();
    }
    /// forget without running Drop (used after a violation, the state is not trustworthy)
    pub fn leak(&mut self) {
        if let Some(f) = self.fut.take() {
            std::mem::forget(f);
        }
    }
    /// clears the slot record after the future has been dropped by the caller
    pub fn clear(&mut self) {
        let wid = self.wid;
        *self = Slot::new(wid);
    }
}

impl<F: Future> Slot<F> {
    /// Poll issued from inside `wake()` by a window reaction (see `tls::set_reactor`): same
    /// bookkeeping as `poll`, but not a library call of its own - a panic travels up through the
    /// library frames and is caught by the call that delivered the wake-up.
    pub fn poll_in_window(&mut self, w: u8) -> Poll<F::Output> {
        let seq = tls::tick();
        self.poll_seq = seq;
        self.last_w = w;
        self.polled = true;
        self.polls += 1;
        let waker = make_waker(self.waker_id_for(w));
        let mut cx = Context::from_waker(&waker);
        let fut = self.fut.as_mut().expect("poll on empty slot");
        let r = fut.as_mut().poll(&mut cx);
        drop(waker);
        if r.is_ready() {
            self.done = true;
        } else if self.arrival == 0 {
            self.arrival = seq;
        }
        r
    }

    /// Polls the slot with waker variant `w`; maintains poll bookkeeping. Returns `None` when the
    /// poll panicked (violation already recorded).
    pub fn poll(&mut self, w: u8, run: &mut Run) -> Option<Poll<F::Output>> {
        let seq = tls::tick();
        self.poll_seq = seq;
        self.last_w = w;
        self.polled = true;
        self.polls += 1;
        let waker = make_waker(self.waker_id_for(w));
        let mut cx = Context::from_waker(&waker);
        let fut = self.fut.as_mut().expect("poll on empty slot");
        let r = run.call("poll", || fut.as_mut().poll(&mut cx));
        drop(waker);
        match r {
            Some(Poll::Pending) => {
                if self.arrival == 0 {
                    self.arrival = seq;
                }
                Some(Poll::Pending)
            }
            Some(Poll::Ready(v)) => {
                self.done = true;
                Some(Poll::Ready(v))
            }
            None => None,
        }
    }

    /// The "poll after completion must panic" probe (C17). Consumes the slot.
    pub fn probe_after_done(&mut self, run: &mut Run, prop_detail: &'static str) {
        debug_assert!(self.done);
        let waker = make_waker(self.wid as usize * 2);
        let mut cx = Context::from_waker(&waker);
        let fut = self.fut.as_mut().expect("probe on empty slot");
        let r = lib_call(|| fut.as_mut().poll(&mut cx).is_ready());
        drop(waker);
        match r {
            Err(_) => {}
            Ok(ready) => run.violate(
                "C17",
                "poll-after-completion-did-not-panic",
                format!("{}: second poll after Ready returned {}", prop_detail, if ready { "Ready" } else { "Pending" }),
            ),
        }
        // the expected panic allocates (payload, message): not part of the C18 accounting
        tls::alloc_reset();
        // a future that panicked in poll is in an unspecified state: never touch it again
        self.leak();
        self.clear();
    }
}

// ---------------------------------------------------------------------------------------------
// Snapshot records and the C01 structural oracle

#[derive(Clone, Copy, Debug, Default)]
pub struct EntryRec {
    pub queue: u8,
    pub addr: usize,
    pub state: u8,
    /// harness waker id of the stored waker (None: no waker stored; Some(255): foreign waker)
    pub waker: Option<u8>,
    pub num: u64,
    pub links: [usize; 4],
}

#[derive(Default)]
pub struct Snapshot {
    pub scalars: Vec<(&'static str, u64)>,
    pub entries: Vec<EntryRec>,
}

impl Snapshot {
    pub fn clear(&mut self) {
        self.scalars.clear();
        self.entries.clear();
    }
    pub fn push(&mut self, item: futures_intrusive::verif::Item<'_>) {
        use futures_intrusive::verif::Item;
        match item {
            Item::Scalar(n, v) => self.scalars.push((n, v)),
            Item::Entry(e) => self.entries.push(EntryRec {
                queue: e.queue,
                addr: e.addr,
                state: e.state,
                waker: e.waker.map(|w| tls::waker_id(w).map(|i| i as u8).unwrap_or(255)),
                num: e.num,
                links: e.links,
            }),
        }
    }
    pub fn scalar(&self, name: &str) -> Option<u64> {
        self.scalars.iter().find(|(n, _)| *n == name).map(|(_, v)| *v)
    }
}

/// What the harness knows about one future that may sit in queue `queue`.
#[derive(Clone, Copy, Debug)]
pub struct SlotView {
    pub queue: u8,
    /// index used in messages and fingerprints
    pub idx: u8,
    pub range: Option<(usize, usize)>,
    pub pending: bool,
    pub woken: bool,
}

/// A small stack vector of `SlotView`s (no heap allocation in the monitors' hot path).
pub struct Views {
    items: [SlotView; 24],
    len: usize,
}

impl Views {
    pub fn new() -> Views {
        Views { items: [SlotView { queue: 0, idx: 0, range: None, pending: false, woken: false }; 24], len: 0 }
    }
    pub fn push(&mut self, v: SlotView) {
        self.items[self.len] = v;
        self.len += 1;
    }
}

impl Default for Views {
    fn default() -> Self {
        Self::new()
    }
}

impl std::ops::Deref for Views {
    type Target = [SlotView];
    fn deref(&self) -> &[SlotView] {
        &self.items[..self.len]
    }
}

impl FromIterator<SlotView> for Views {
    fn from_iter<I: IntoIterator<Item = SlotView>>(iter: I) -> Views {
        let mut v = Views::new();
        for x in iter {
            v.push(x);
        }
        v
    }
}

/// C01 (a)-(c) for linked-list queues. `queues` lists the queue ids that exist.
/// Returns the forward order of each queue as slot indices through `order_out` (for fingerprints
/// and for world specific checks).
pub fn check_list_queues(
    snap: &Snapshot,
    queues: &[u8],
    views: &[SlotView],
    run: &mut Run,
    order_out: &mut Vec<(u8, u8, u8, u8, u64)>,
    lost_wakeup_prop: &'static str,
) {
    order_out.clear();
    let es = &snap.entries;
    for &q in queues {
        // forward entries of a queue are contiguous (hook order), followed by its backward entries
        let f0 = es.iter().position(|e| e.queue == q).unwrap_or(es.len());
        let f1 = f0 + es[f0..].iter().take_while(|e| e.queue == q).count();
        let b0 = es.iter().position(|e| e.queue == (q | 0x80)).unwrap_or(es.len());
        let b1 = b0 + es[b0..].iter().take_while(|e| e.queue == (q | 0x80)).count();
        let fwd = &es[f0..f1];
        let bwd = &es[b0..b1];
        if fwd.len() >= (1 << 16) || bwd.len() >= (1 << 16) {
            run.violate("C01", "queue-cycle", format!("queue {} walk did not terminate", q));
            if run.failed() {
                return;
            }
        }
        // (b) forward walk equals reversed backward walk, link fields symmetric
        if fwd.len() != bwd.len() || fwd.iter().zip(bwd.iter().rev()).any(|(a, b)| a.addr != b.addr) {
            run.violate(
                "C01",
                "queue-links-inconsistent",
                format!(
                    "queue {}: head->tail walk {:x?} differs from reversed tail->head walk {:x?}",
                    q,
                    fwd.iter().map(|e| e.addr).collect::<Vec<_>>(),
                    bwd.iter().map(|e| e.addr).collect::<Vec<_>>()
                ),
            );
            if run.failed() {
                return;
            }
        }
        for (i, e) in fwd.iter().enumerate() {
            let want_prev = if i == 0 { 0 } else { fwd[i - 1].addr };
            let want_next = if i + 1 == fwd.len() { 0 } else { fwd[i + 1].addr };
            if e.links[0] != want_prev || e.links[1] != want_next {
                run.violate("C01", "queue-links-inconsistent", format!("queue {}: node {:#x} has prev/next {:x?}, expected [{:#x},{:#x}]", q, e.addr, &e.links[..2], want_prev, want_next));
                if run.failed() {
                    return;
                }
            }
        }
        // (a) every linked node belongs to a pending slot of this queue, each once
        let mut seen: u64 = 0;
        for e in fwd {
            let owner = views.iter().find(|v| v.queue == q && v.range.is_some_and(|(lo, hi)| e.addr >= lo && e.addr < hi));
            match owner {
                None => {
                    run.violate(
                        "C01",
                        "dangling-node",
                        format!("queue {}: linked node {:#x} (state {}) lies in no live future of this queue", q, e.addr, e.state),
                    );
                    if run.failed() {
                        return;
                    }
                }
                Some(v) => {
                    if !v.pending {
                        run.violate(
                            "C01",
                            "linked-but-not-waiting",
                            format!("queue {}: slot {} is linked (node state {}) but is not a pending future (never polled, completed or cancelled)", q, v.idx, e.state),
                        );
                        if run.failed() {
                            return;
                        }
                    }
                    if seen & (1u64 << v.idx) != 0 {
                        run.violate("C01", "linked-twice", format!("queue {}: slot {} is linked twice", q, v.idx));
                        if run.failed() {
                            return;
                        }
                    }
                    seen |= 1u64 << v.idx;
                    let wv = match e.waker {
                        None => 0,
                        Some(255) => 255,
                        Some(w) => 1 + (w & 1),
                    };
                    order_out.push((q, v.idx, e.state, wv, e.num));
                }
            }
        }
        // (c) every pending slot without an unconsumed wake is linked
        for v in views.iter().filter(|v| v.queue == q) {
            if v.pending && !v.woken && seen & (1u64 << v.idx) == 0 {
                run.violate2(
                    "C01",
                    lost_wakeup_prop,
                    "waiting-but-not-linked",
                    format!("queue {}: slot {} is pending, has no unconsumed wake-up, and is not in the wait queue (it can never be woken)", q, v.idx),
                );
                if run.failed() {
                    return;
                }
            }
        }
    }
}

/// Tier of a check run.
#[derive(Clone, Copy, PartialEq, Eq, Debug)]
pub enum Tier {
    Quick,
    Thorough,
}

/// A world: interpreter + monitors for one primitive.
pub trait World: Sync {
    fn id(&self) -> u8;
    /// the world's futures are polled with harness wakers, so every configuration also exists
    /// with a waker shared by all slots (`Cfg::sw`)
    fn shared_wakers(&self) -> bool {
        false
    }
    fn name(&self) -> &'static str;
    /// properties whose monitors are evaluated by this world
    fn props(&self) -> &'static [&'static str];
    fn configs(&self, tier: Tier) -> Vec<Cfg>;
    /// configs small enough for exhaustive enumeration
    fn enum_configs(&self, tier: Tier) -> Vec<(Cfg, usize)>;
    fn specs(&self, cfg: &Cfg) -> Vec<OpSpec>;
    fn run(&self, cfg: &Cfg, ops: &[Op], run: &mut Run);
    /// is a history with these class bits non-trivial for `prop`?
    fn nontrivial(&self, prop: &str, classes: u64) -> bool;
    fn cfg_desc(&self, cfg: &Cfg) -> String;
    /// `cfg_desc` plus the waker universe
    fn describe(&self, cfg: &Cfg) -> String {
        let mut s = self.cfg_desc(cfg);
        if cfg.sw == 1 {
            s.push_str(" [waker B is one waker shared by all slots]");
        }
        s
    }
    /// names of class bits (for the evidence histogram)
    fn class_names(&self) -> &'static [&'static str];
}

pub fn op_to_string(specs: &[OpSpec], op: &Op) -> String {
    let s = &specs[op.code as usize];
    match (s.an, s.bn) {
        (0, 0) => s.name.to_string(),
        (_, 0) => format!("{}({})", s.name, op.a),
        _ => format!("{}({},{})", s.name, op.a, op.b),
    }
}

/// C01 (a)-(c) for the pairing heap of the timer. Entries come from the pre-order walk.
pub fn check_heap_queue(snap: &Snapshot, views: &[SlotView], run: &mut Run, order_out: &mut Vec<(u8, u8, u8, u8, u64)>, lost_wakeup_prop: &'static str) {
    order_out.clear();
    let es: Vec<&EntryRec> = snap.entries.iter().filter(|e| e.queue == 0).collect();
    if es.len() >= (1 << 15) {
        run.violate("C01", "queue-cycle", "timer heap walk did not terminate".into());
        if run.failed() {
            return;
        }
    }
    let find = |addr: usize| es.iter().position(|e| e.addr == addr);
    for (i, e) in es.iter().enumerate() {
        if es.iter().skip(i + 1).any(|o| o.addr == e.addr) {
            run.violate("C01", "linked-twice", format!("timer heap: node {:#x} is reachable twice", e.addr));
            if run.failed() {
                return;
            }
        }
        let [parent, prev, next, child] = e.links;
        if i == 0 && (parent != 0 || prev != 0 || next != 0) {
            run.violate("C01", "queue-links-inconsistent", format!("timer heap: root {:#x} has parent/sibling links {:x?}", e.addr, e.links));
            if run.failed() {
                return;
            }
        }
        if parent != 0 {
            match find(parent) {
                None => {
                    run.violate("C01", "queue-links-inconsistent", format!("timer heap: node {:#x} has unknown parent {:#x}", e.addr, parent));
                    if run.failed() {
                        return;
                    }
                }
                Some(p) => {
                    if es[p].num > e.num {
                        run.violate("C01", "heap-order", format!("timer heap: parent expiry {} > child expiry {}", es[p].num, e.num));
                        if run.failed() {
                            return;
                        }
                    }
                    if prev == 0 && es[p].links[3] != e.addr {
                        run.violate("C01", "queue-links-inconsistent", format!("timer heap: node {:#x} has no prev but is not its parent's first child", e.addr));
                        if run.failed() {
                            return;
                        }
                    }
                }
            }
        } else if i != 0 {
            run.violate("C01", "queue-links-inconsistent", format!("timer heap: non-root node {:#x} has no parent", e.addr));
            if run.failed() {
                return;
            }
        }
        if prev != 0 {
            match find(prev) {
                Some(p) if es[p].links[2] == e.addr && es[p].links[0] == parent => {}
                _ => {
                    run.violate("C01", "queue-links-inconsistent", format!("timer heap: node {:#x} prev link {:#x} is not symmetric", e.addr, prev));
                    if run.failed() {
                        return;
                    }
                }
            }
        }
        if next != 0 {
            match find(next) {
                Some(p) if es[p].links[1] == e.addr && es[p].links[0] == parent => {}
                _ => {
                    run.violate("C01", "queue-links-inconsistent", format!("timer heap: node {:#x} next link {:#x} is not symmetric", e.addr, next));
                    if run.failed() {
                        return;
                    }
                }
            }
        }
        if child != 0 {
            match find(child) {
                Some(p) if es[p].links[0] == e.addr && es[p].links[1] == 0 => {}
                _ => {
                    run.violate("C01", "queue-links-inconsistent", format!("timer heap: node {:#x} first_child link {:#x} is not symmetric", e.addr, child));
                    if run.failed() {
                        return;
                    }
                }
            }
        }
    }
    let mut seen: Vec<u8> = Vec::new();
    for e in &es {
        let owner = views.iter().find(|v| v.range.is_some_and(|(lo, hi)| e.addr >= lo && e.addr < hi));
        match owner {
            None => {
                run.violate("C01", "dangling-node", format!("timer heap: linked node {:#x} (expiry {}) lies in no live future", e.addr, e.num));
                if run.failed() {
                    return;
                }
            }
            Some(v) => {
                if !v.pending {
                    run.violate("C01", "linked-but-not-waiting", format!("timer heap: slot {} is linked (node state {}) but is not a pending future", v.idx, e.state));
                    if run.failed() {
                        return;
                    }
                }
                if seen.contains(&v.idx) {
                    run.violate("C01", "linked-twice", format!("timer heap: slot {} is linked twice", v.idx));
                    if run.failed() {
                        return;
                    }
                }
                seen.push(v.idx);
                let wv = match e.waker {
                    None => 0,
                    Some(255) => 255,
                    Some(w) => 1 + (w & 1),
                };
                // shape: index of the parent in pre-order (+1), so equal shapes hash equal
                let parent_pos = if e.links[0] == 0 { 0 } else { 1 + find(e.links[0]).unwrap_or(254) as u8 };
                order_out.push((parent_pos, v.idx, e.state, wv, e.num));
            }
        }
    }
    for v in views {
        if v.pending && !v.woken && !seen.contains(&v.idx) {
            run.violate2("C01", lost_wakeup_prop, "waiting-but-not-linked", format!("timer: slot {} is pending, has no unconsumed wake-up, and is not in the timer heap", v.idx));
            if run.failed() {
                return;
            }
        }
    }
}

/// Decodes a raw generated triple into an op of the world (monotone maps so shrinking works).
pub fn decode_op(specs: &[OpSpec], total_weight: u32, raw: (u16, u8, u8)) -> Op {
    let mut pick = (raw.0 as u64 * total_weight as u64) >> 16;
    let mut code = 0usize;
    for (i, s) in specs.iter().enumerate() {
        if pick < s.weight as u64 {
            code = i;
            break;
        }
        pick -= s.weight as u64;
        code = i;
    }
    let s = &specs[code];
    let a = if s.an == 0 { 0 } else { ((raw.1 as u32 * s.an as u32) >> 8) as u8 };
    let b = if s.bn == 0 { 0 } else { ((raw.2 as u32 * s.bn as u32) >> 8) as u8 };
    Op { code: code as u8, a, b }
}


/// Generator efficiency: a create / poll op that has no applicable target is turned into something
/// useful instead of being a no-op - drop a completed future to free its slot, or (poll only)
/// create a future when nothing exists yet. Deterministic, so shrinking and replay are unaffected.
pub fn recycle<F>(op: &Op, slots: &[Slot<F>], create_codes: &[u8], poll_code: u8, drop_code: u8) -> Op {
    let is_create = create_codes.contains(&op.code);
    let is_poll = op.code == poll_code;
    if !(is_create || is_poll) {
        return *op;
    }
    let applicable = if is_create { slots.iter().any(|s| !s.alive()) } else { slots.iter().any(|s| s.pollable()) };
    if applicable {
        return *op;
    }
    if let Some(i) = slots.iter().position(|s| s.alive() && (s.done || s.cancelled)) {
        return Op { code: drop_code, a: i as u8, b: 0 };
    }
    if is_poll && slots.iter().any(|s| !s.alive()) {
        return Op { code: create_codes[0], a: op.a, b: op.b };
    }
    *op
}


/// `World::configs` plus, for worlds with wakers, shared-waker variants of every third one.
pub fn all_configs(w: &dyn World, tier: Tier) -> Vec<Cfg> {
    let base = w.configs(tier);
    let mut v = base.clone();
    if w.shared_wakers() {
        for c in base.iter().step_by(3) {
            v.push(Cfg { sw: 1, ..*c });
        }
    }
    v
}

/// `World::enum_configs` plus the shared-waker variant of the first one.
pub fn all_enum_configs(w: &dyn World, tier: Tier) -> Vec<(Cfg, usize)> {
    let base = w.enum_configs(tier);
    let mut v = base.clone();
    if w.shared_wakers() {
        if let Some((c, d)) = base.first() {
            v.push((Cfg { sw: 1, ..*c }, *d));
        }
    }
    v
}
