//! `Tagged` payloads: uniquely identified values registered in a thread-local drop table.
//! No allocation; create / clone / drop are counted per id so that a double drop, a lost value or
//! a resurrected value is detected when it happens.

use std::cell::Cell;

pub const MAX_IDS: usize = 512;

#[allow(clippy::declare_interior_mutable_const)]
const CI: Cell<i32> = Cell::new(0);

pub struct Table {
    pub created: [Cell<i32>; MAX_IDS],
    pub clones: [Cell<i32>; MAX_IDS],
    pub drops: [Cell<i32>; MAX_IDS],
    pub next: Cell<usize>,
}

thread_local! {
    pub static TABLE: Table = const { Table {
        created: [CI; MAX_IDS], clones: [CI; MAX_IDS], drops: [CI; MAX_IDS], next: Cell::new(0),
    } };
}

#[derive(Debug, PartialEq, Eq)]
pub struct Tagged {
    pub id: u16,
}

impl Tagged {
    /// A fresh value with a new id; `None` when the per-history id space is exhausted.
    pub fn fresh() -> Option<Tagged> {
        TABLE.with(|t| {
            let id = t.next.get();
            if id >= MAX_IDS {
                return None;
            }
            t.next.set(id + 1);
            t.created[id].set(1);
            Some(Tagged { id: id as u16 })
        })
    }
}

impl Clone for Tagged {
    fn clone(&self) -> Tagged {
        TABLE.with(|t| {
            let c = &t.clones[self.id as usize];
            c.set(c.get() + 1);
        });
        Tagged { id: self.id }
    }
}

impl Drop for Tagged {
    fn drop(&mut self) {
        let _ = TABLE.try_with(|t| {
            let c = &t.drops[self.id as usize];
            c.set(c.get() + 1);
        });
    }
}

pub fn reset() {
    TABLE.with(|t| {
        let n = t.next.get().min(MAX_IDS);
        for i in 0..n {
            t.created[i].set(0);
            t.clones[i].set(0);
            t.drops[i].set(0);
        }
        t.next.set(0);
    })
}

pub fn ids() -> usize {
    TABLE.with(|t| t.next.get())
}

pub fn drops(id: u16) -> i32 {
    TABLE.with(|t| t.drops[id as usize].get())
}

pub fn clones(id: u16) -> i32 {
    TABLE.with(|t| t.clones[id as usize].get())
}

/// instances alive: 1 + clones - drops
pub fn live(id: u16) -> i32 {
    TABLE.with(|t| t.created[id as usize].get() + t.clones[id as usize].get() - t.drops[id as usize].get())
}

/// total number of drops over all ids (cheap change detector)
pub fn total_drops() -> i64 {
    TABLE.with(|t| (0..t.next.get().min(MAX_IDS)).map(|i| t.drops[i].get() as i64).sum())
}
