//! Thread-local harness state: logical clock, wake bookkeeping, allocation
//! counters, panic capture. Everything here is allocation free after start-up
//! so that the allocation guard (C18) never sees harness activity.

use std::alloc::{GlobalAlloc, Layout, System};
use std::cell::{Cell, RefCell};
use std::task::{RawWaker, RawWakerVTable, Waker};

pub const MAX_WAKERS: usize = 64;
pub const WAKE_LOG_CAP: usize = 256;
/// identity of the waker shared by all slots when `Cfg::sw == 1` (odd, so it counts as variant B)
pub const SHARED_WAKER: usize = MAX_WAKERS - 1;

pub struct Tls {
    /// logical time: incremented at every poll begin and every wake
    pub seq: Cell<u64>,
    /// logical time of the last wake through waker id
    pub last_wake: [Cell<u64>; MAX_WAKERS],
    /// number of wakes through waker id (whole history)
    pub wake_count: [Cell<u32>; MAX_WAKERS],
    /// outstanding clones of waker id (the harness' own instance counts)
    pub refs: [Cell<i32>; MAX_WAKERS],
    /// set when a waker was dropped more often than it was cloned
    pub overdrop: Cell<bool>,
    /// wake log of the current op (waker ids, in wake order)
    pub log: [Cell<u8>; WAKE_LOG_CAP],
    pub log_len: Cell<usize>,
    /// allocation guard
    pub armed: Cell<bool>,
    pub allocs: Cell<u64>,
    pub deallocs: Cell<u64>,
    /// panic capture
    pub quiet_panics: Cell<bool>,
    pub last_panic: RefCell<String>,
    /// harness clock used by the timer worlds
    pub clock: Cell<u64>,
    /// set while a library call is running (re-entrancy check for CheckedLock)
    pub in_call: Cell<bool>,
    /// waker variant B is one waker shared by all slots (Cfg::sw)
    pub shared_b: Cell<bool>,
    /// number of `CheckedLock`s this thread holds right now
    pub locks_held: Cell<u32>,
    /// "second thread in the window": called from inside `wake()` when the wake-up is delivered
    /// during a library call while no `CheckedLock` is held (context address, callback)
    pub reactor: Cell<Option<(usize, unsafe fn(usize, usize))>>,
    pub reacting: Cell<bool>,
    /// wake-ups delivered inside a library call with no `CheckedLock` held (whole history)
    pub window_wakes: Cell<u32>,
    /// "second thread between two critical sections": called once, from the first
    /// `CheckedLock::unlock` inside a library call that leaves no lock held
    pub unlock_hook: Cell<Option<(usize, unsafe fn(usize))>>,
    pub hook_fired: Cell<bool>,
    /// the call took a `CheckedLock` again after the hook had fired
    pub hook_relocked: Cell<bool>,
}

#[allow(clippy::declare_interior_mutable_const)]
const C64: Cell<u64> = Cell::new(0);
#[allow(clippy::declare_interior_mutable_const)]
const C32: Cell<u32> = Cell::new(0);
#[allow(clippy::declare_interior_mutable_const)]
const CI32: Cell<i32> = Cell::new(0);
#[allow(clippy::declare_interior_mutable_const)]
const C8: Cell<u8> = Cell::new(0);

thread_local! {
    pub static TLS: Tls = const { Tls {
        seq: Cell::new(0),
        last_wake: [C64; MAX_WAKERS],
        wake_count: [C32; MAX_WAKERS],
        refs: [CI32; MAX_WAKERS],
        overdrop: Cell::new(false),
        log: [C8; WAKE_LOG_CAP],
        log_len: Cell::new(0),
        armed: Cell::new(false),
        allocs: Cell::new(0),
        deallocs: Cell::new(0),
        quiet_panics: Cell::new(false),
        last_panic: RefCell::new(String::new()),
        clock: Cell::new(0),
        in_call: Cell::new(false),
        shared_b: Cell::new(false),
        locks_held: Cell::new(0),
        reactor: Cell::new(None),
        reacting: Cell::new(false),
        window_wakes: Cell::new(0),
        unlock_hook: Cell::new(None),
        hook_fired: Cell::new(false),
        hook_relocked: Cell::new(false),
    } };
}

thread_local! {
    /// memory of dropped futures, kept allocated until the history ends: a dangling queue entry
    /// then points to dead-but-mapped memory (the structural oracle reports it instead of the
    /// process crashing), and no new future can reuse the address and mask the dangling entry
    static GRAVEYARD: RefCell<Vec<(*mut u8, Layout)>> = const { RefCell::new(Vec::new()) };
}

static QUARANTINE_OFF: std::sync::atomic::AtomicBool = std::sync::atomic::AtomicBool::new(false);

/// Fuzzing under AddressSanitizer wants dropped futures to be freed at once, so that any access
/// to a dangling wait node is reported by the sanitizer.
pub fn set_quarantine(on: bool) {
    QUARANTINE_OFF.store(!on, std::sync::atomic::Ordering::Relaxed);
}

pub fn bury(ptr: *mut u8, layout: Layout) {
    if layout.size() == 0 {
        return;
    }
    if QUARANTINE_OFF.load(std::sync::atomic::Ordering::Relaxed) {
        unsafe { System.dealloc(ptr, layout) };
        return;
    }
    GRAVEYARD.with(|g| g.borrow_mut().push((ptr, layout)));
}

fn free_graveyard() {
    GRAVEYARD.with(|g| {
        for (p, l) in g.borrow_mut().drain(..) {
            unsafe { System.dealloc(p, l) };
        }
    });
}

/// Reset everything that belongs to one history.
pub fn reset_history() {
    free_graveyard();
    TLS.with(|t| {
        t.seq.set(0);
        for i in 0..MAX_WAKERS {
            t.last_wake[i].set(0);
            t.wake_count[i].set(0);
            t.refs[i].set(0);
        }
        t.overdrop.set(false);
        t.log_len.set(0);
        t.locks_held.set(0);
        t.reactor.set(None);
        t.reacting.set(false);
        t.window_wakes.set(0);
        t.unlock_hook.set(None);
        t.hook_fired.set(false);
        t.hook_relocked.set(false);
        t.armed.set(false);
        t.allocs.set(0);
        t.deallocs.set(0);
        t.clock.set(0);
        t.in_call.set(false);
        t.shared_b.set(false);
    })
}

/// Selects the waker universe of the history that starts now (call after `reset_history`).
pub fn set_shared_b(on: bool) {
    TLS.with(|t| t.shared_b.set(on))
}

pub fn shared_b() -> bool {
    TLS.with(|t| t.shared_b.get())
}

pub fn tick() -> u64 {
    TLS.with(|t| {
        let v = t.seq.get() + 1;
        t.seq.set(v);
        v
    })
}

pub fn now_seq() -> u64 {
    TLS.with(|t| t.seq.get())
}

pub fn last_wake(id: usize) -> u64 {
    TLS.with(|t| t.last_wake[id].get())
}

pub fn wake_count(id: usize) -> u32 {
    TLS.with(|t| t.wake_count[id].get())
}

pub fn total_wakes() -> u64 {
    TLS.with(|t| t.wake_count.iter().map(|c| c.get() as u64).sum())
}

pub fn clear_op_log() {
    TLS.with(|t| t.log_len.set(0))
}

pub fn op_log() -> Vec<u8> {
    TLS.with(|t| {
        let n = t.log_len.get().min(WAKE_LOG_CAP);
        (0..n).map(|i| t.log[i].get()).collect()
    })
}

pub fn op_log_len() -> usize {
    TLS.with(|t| t.log_len.get())
}

pub fn clock_get() -> u64 {
    TLS.with(|t| t.clock.get())
}

pub fn clock_set(v: u64) {
    TLS.with(|t| t.clock.set(v))
}

// ---------------------------------------------------------------------------------------------
// Wakers: the data pointer encodes the waker id, no allocation, no shared state.

/// `CheckedLock` bookkeeping: +1 on lock, -1 on unlock.
pub fn lock_delta(d: i32) {
    let fire = TLS.with(|t| {
        let v = t.locks_held.get();
        t.locks_held.set(if d > 0 { v + 1 } else { v.saturating_sub(1) });
        if t.reacting.get() || !t.in_call.get() {
            return None;
        }
        if d > 0 {
            if t.hook_fired.get() {
                t.hook_relocked.set(true);
            }
            None
        } else if t.locks_held.get() == 0 && !t.hook_fired.get() && !std::thread::panicking() {
            t.unlock_hook.get()
        } else {
            None
        }
    });
    if let Some((ctx, f)) = fire {
        TLS.with(|t| {
            t.hook_fired.set(true);
            t.reacting.set(true);
        });
        unsafe { f(ctx) };
        TLS.with(|t| t.reacting.set(false));
    }
}

/// Installs the callback that plays a second thread's complete API call at the first instant
/// inside the next library call at which the primitive's internal (`CheckedLock`) lock is free
/// again. With one critical section per call - the unchanged tree - that instant is after the
/// call took effect, so the history is the sequential "call; injected call". A call that is split
/// into several critical sections gets the injected call in between.
pub fn install_unlock_hook(ctx: usize, f: unsafe fn(usize)) {
    TLS.with(|t| {
        t.unlock_hook.set(Some((ctx, f)));
        t.hook_fired.set(false);
        t.hook_relocked.set(false);
    })
}

/// Removes the hook; returns (fired, the call locked again after it fired).
pub fn remove_unlock_hook() -> (bool, bool) {
    TLS.with(|t| {
        t.unlock_hook.set(None);
        (t.hook_fired.replace(false), t.hook_relocked.replace(false))
    })
}

pub fn locks_held() -> u32 {
    TLS.with(|t| t.locks_held.get())
}

pub fn window_wakes() -> u32 {
    TLS.with(|t| t.window_wakes.get())
}

/// Installs (or removes) the reaction callback. The callback runs inside `wake()` when - and only
/// when - the wake-up arrives during a library call on a `CheckedLock` flavour while the
/// primitive's internal lock is free: the instant at which another thread could already act on
/// the woken future. While the lock is held a second thread would block until the call is over,
/// which the histories of whole calls cover already.
pub fn set_reactor(r: Option<(usize, unsafe fn(usize, usize))>) {
    TLS.with(|t| t.reactor.set(r))
}

fn maybe_react(id: usize) {
    let r = TLS.with(|t| {
        if t.in_call.get() && t.locks_held.get() == 0 && !t.reacting.get() {
            t.reactor.get()
        } else {
            None
        }
    });
    if let Some((ctx, f)) = r {
        TLS.with(|t| {
            t.window_wakes.set(t.window_wakes.get() + 1);
            t.reacting.set(true);
        });
        unsafe { f(ctx, id) };
        TLS.with(|t| t.reacting.set(false));
    }
}

fn record_wake(id: usize) {
    record_wake_inner(id);
    maybe_react(id);
}

fn record_wake_inner(id: usize) {
    TLS.with(|t| {
        let v = t.seq.get() + 1;
        t.seq.set(v);
        t.last_wake[id].set(v);
        t.wake_count[id].set(t.wake_count[id].get().wrapping_add(1));
        let n = t.log_len.get();
        if n < WAKE_LOG_CAP {
            t.log[n].set(id as u8);
        }
        t.log_len.set(n + 1);
    })
}

fn ref_delta(id: usize, d: i32) {
    TLS.with(|t| {
        let v = t.refs[id].get() + d;
        if v < 0 {
            t.overdrop.set(true);
        }
        t.refs[id].set(v);
    })
}

unsafe fn vt_clone(data: *const ()) -> RawWaker {
    ref_delta(data.addr() - 1, 1);
    RawWaker::new(data, &VTABLE)
}
unsafe fn vt_wake(data: *const ()) {
    record_wake(data.addr() - 1);
    ref_delta(data.addr() - 1, -1);
}
unsafe fn vt_wake_by_ref(data: *const ()) {
    record_wake(data.addr() - 1);
}
unsafe fn vt_drop(data: *const ()) {
    ref_delta(data.addr() - 1, -1);
}

static VTABLE: RawWakerVTable = RawWakerVTable::new(vt_clone, vt_wake, vt_wake_by_ref, vt_drop);

/// A waker with identity `id` (< MAX_WAKERS). Two wakers `will_wake` each other iff ids are equal.
pub fn make_waker(id: usize) -> Waker {
    assert!(id < MAX_WAKERS);
    ref_delta(id, 1);
    unsafe { Waker::from_raw(RawWaker::new(std::ptr::without_provenance::<()>(id + 1), &VTABLE)) }
}

/// Decodes the id of a harness waker (used on snapshot entries).
pub fn waker_id(w: &Waker) -> Option<usize> {
    if std::ptr::eq(w.vtable(), &VTABLE) {
        Some(w.data().addr() - 1)
    } else {
        None
    }
}

pub fn waker_overdrop() -> bool {
    TLS.with(|t| t.overdrop.get())
}

// ---------------------------------------------------------------------------------------------
// Allocation guard

pub struct CountingAlloc;

unsafe impl GlobalAlloc for CountingAlloc {
    unsafe fn alloc(&self, layout: Layout) -> *mut u8 {
        let _ = TLS.try_with(|t| {
            if t.armed.get() {
                t.allocs.set(t.allocs.get() + 1);
            }
        });
        System.alloc(layout)
    }
    unsafe fn dealloc(&self, ptr: *mut u8, layout: Layout) {
        let _ = TLS.try_with(|t| {
            if t.armed.get() {
                t.deallocs.set(t.deallocs.get() + 1);
            }
        });
        System.dealloc(ptr, layout)
    }
    unsafe fn alloc_zeroed(&self, layout: Layout) -> *mut u8 {
        let _ = TLS.try_with(|t| {
            if t.armed.get() {
                t.allocs.set(t.allocs.get() + 1);
            }
        });
        System.alloc_zeroed(layout)
    }
    unsafe fn realloc(&self, ptr: *mut u8, layout: Layout, new_size: usize) -> *mut u8 {
        let _ = TLS.try_with(|t| {
            if t.armed.get() {
                t.allocs.set(t.allocs.get() + 1);
                t.deallocs.set(t.deallocs.get() + 1);
            }
        });
        System.realloc(ptr, layout, new_size)
    }
}

/// (allocations, deallocations) counted while armed since the last reset.
pub fn alloc_counts() -> (u64, u64) {
    TLS.with(|t| (t.allocs.get(), t.deallocs.get()))
}

/// Runs harness bookkeeping with the allocation guard switched off (used by window reactions,
/// which run inside a library call).
pub fn unarmed<R>(f: impl FnOnce() -> R) -> R {
    let was = TLS.with(|t| t.armed.replace(false));
    let r = f();
    TLS.with(|t| t.armed.set(was));
    r
}

pub fn alloc_reset() {
    TLS.with(|t| {
        t.allocs.set(0);
        t.deallocs.set(0);
    })
}

// ---------------------------------------------------------------------------------------------
// Library calls: armed allocation guard + panic capture

/// Installs a panic hook that stays silent for panics inside `lib_call` and records the message.
pub fn install_panic_hook() {
    let prev = std::panic::take_hook();
    std::panic::set_hook(Box::new(move |info| {
        let quiet = TLS.try_with(|t| t.quiet_panics.get()).unwrap_or(false);
        if quiet {
            let was_armed = TLS.with(|t| t.armed.replace(false));
            let msg = if let Some(s) = info.payload().downcast_ref::<&str>() {
                s.to_string()
            } else if let Some(s) = info.payload().downcast_ref::<String>() {
                s.clone()
            } else {
                "<non-string panic>".to_string()
            };
            let loc = info.location().map(|l| format!(" at {}:{}", l.file(), l.line())).unwrap_or_default();
            TLS.with(|t| *t.last_panic.borrow_mut() = format!("{}{}", msg, loc));
            TLS.with(|t| t.armed.set(was_armed));
        } else {
            prev(info)
        }
    }));
}

/// Runs one call into the library with the allocation guard armed and panics caught.
pub fn lib_call<R>(f: impl FnOnce() -> R) -> Result<R, String> {
    TLS.with(|t| {
        t.quiet_panics.set(true);
        t.in_call.set(true);
        t.armed.set(true);
    });
    let r = std::panic::catch_unwind(std::panic::AssertUnwindSafe(f));
    TLS.with(|t| {
        t.armed.set(false);
        t.in_call.set(false);
        t.quiet_panics.set(false);
    });
    match r {
        Ok(v) => Ok(v),
        Err(p) => {
            let mut msg = TLS.with(|t| t.last_panic.borrow().clone());
            if msg.is_empty() {
                // the hook was not ours (e.g. fuzzing): take the payload
                msg = if let Some(s) = p.downcast_ref::<&str>() {
                    s.to_string()
                } else if let Some(s) = p.downcast_ref::<String>() {
                    s.clone()
                } else {
                    "<panic>".into()
                };
            }
            drop(p);
            Err(msg)
        }
    }
}
