#![no_main]
use libfuzzer_sys::fuzz_target;

fuzz_target!(|data: &[u8]| {
    fi_verif::common::tls::set_quarantine(false);
    fi_verif::fuzz::fuzz_one("ringbuf", data);
});
