#!/usr/bin/env python3
"""tools/seed_recheck.py [seeded-dir-names...]  - regression over the stored seeded changes.

For every /verif/seeded/<name>/ (default: all) apply patch.diff to $REPO_DIR (default /repo), run the
quick check of the seed's own property from $VERIF_RUN_DIR (default /verif), undo the patch, and
record the result in meta.json (`our_checks_quick_tier`; an earlier differing result is kept as
`first_contact`). The evidence directory of $VERIF_RUN_DIR is backed up and restored, so committed
evidence always stems from the unchanged tree. Prints one line per seed and a summary; exit 1 if a
seed that is not marked `not_caught` in its meta.json goes unreported.
"""
import json, os, subprocess, sys, shutil, time

VERIF = "/verif"
REPO = os.environ.get("REPO_DIR", "/repo")
RUN = os.environ.get("VERIF_RUN_DIR", VERIF)


def sh(cmd, cwd=None):
    return subprocess.run(cmd, shell=True, cwd=cwd, stdout=subprocess.PIPE, stderr=subprocess.STDOUT, text=True)


def main():
    names = sys.argv[1:] or sorted(os.listdir(f"{VERIF}/seeded"))
    if sh("git status --porcelain --untracked-files=no", REPO).stdout.strip():
        print(f"{REPO} is dirty"); sys.exit(2)
    backup = f"/tmp/evidence_backup_{os.getpid()}"
    shutil.rmtree(backup, ignore_errors=True)
    shutil.copytree(f"{RUN}/evidence", backup)
    missed, rows = [], []
    try:
        for name in names:
            d = f"{VERIF}/seeded/{name}"
            if not os.path.isfile(f"{d}/patch.diff"):
                continue
            meta = json.load(open(f"{d}/meta.json"))
            # `reported_by`: the seed was written for one property but the behaviour it breaks is
            # stated by another one (see DESIGN.md B6); the regression then runs that check
            prop = meta.get("reported_by", meta.get("property", name[:3]))
            if sh(f"git apply {d}/patch.diff", REPO).returncode != 0:
                print(f"{name}: patch does not apply"); missed.append(name); continue
            t0 = time.time()
            try:
                r = sh(f"./check {prop} --tier quick", RUN)
            finally:
                sh("git checkout -- .", REPO)
            v = next((l for l in r.stdout.splitlines() if l.startswith("violation:")), "")[:300]
            h = next((l for l in r.stdout.splitlines() if l.startswith("history:")), "")[:300]
            line = f"{prop}: rc={r.returncode} {int(time.time()-t0)}s | {v} | {h}"
            old = meta.get("our_checks_quick_tier", [])
            own_old = [l for l in old if l.startswith(prop + ":")]
            if own_old and ("rc=1" in own_old[0]) != (r.returncode == 1) and "first_contact" not in meta:
                meta["first_contact"] = own_old
            meta["our_checks_quick_tier"] = [line] + [l for l in old if not l.startswith(prop + ":")]
            json.dump(meta, open(f"{d}/meta.json", "w"), indent=1)
            caught = r.returncode == 1 and f"VIOLATION property={prop}" in r.stdout
            tag = "caught" if caught else ("documented-miss" if "not_caught" in meta else "MISSED")
            if tag == "MISSED":
                missed.append(name)
            rows.append((name, tag))
            print(f"{name}: {tag} {line[:200]}", flush=True)
    finally:
        shutil.rmtree(f"{RUN}/evidence", ignore_errors=True)
        shutil.move(backup, f"{RUN}/evidence")
    print(f"seeds: {len(rows)} caught: {sum(1 for _, t in rows if t == 'caught')} documented misses: {sum(1 for _, t in rows if t == 'documented-miss')} missed: {missed}")
    sys.exit(1 if missed else 0)


if __name__ == "__main__":
    main()
