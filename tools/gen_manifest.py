#!/usr/bin/env python3
"""Writes /verif/MANIFEST.json from the table below (kept in one place so it stays consistent)."""
import json, subprocess
hooks_commits = subprocess.run("git -C /repo log --format=%H --grep='^verif hooks'", shell=True, capture_output=True, text=True).stdout.split()

TECH_RE = "stateful property-based testing: proptest-generated op histories and task programs (shrinking, fixed seed) + bounded-exhaustive enumeration with joint-state pruning, checked after every op against an executable reference model / invariant monitors; regress histories replayed first; thorough tiers add libFuzzer+ASan and Miri where listed"
NOTE = ("Trusted base: the harness interpreter and monitors (harness/src), the read-only snapshot hooks in /repo (cfg futures_intrusive_verif), "
        "rustc/std, proptest. Multi-threaded schedules are represented by sequential interleavings of whole API calls (each public operation is one "
        "critical section, DESIGN.md 1.1); memory-ordering bugs are out of reach. Absence is never established: evidence reports counts, classes and fixpoints.")
def lvl(text, ref):
    return {"category": "exploration", "text": text, "design_ref": ref}

CHECKS = {
 "C01": ("Generated-history search over every primitive/flavour with a structural oracle (wait queue == alive waiting futures, by address) after every op; panics are violations; thorough adds ASan fuzzing and Miri on samples. Exploration-level: finds dangling/duplicated/missing queue entries within the explored histories, fixpoint for small configurations.", "4/C01"),
 "C02": ("Generated-history search on the mutex (3 lock flavours x fairness) with guard-count / is_locked / protected-value oracle; enumeration to a joint-state fixpoint for small k.", "4/C02"),
 "C03": ("Generated-history search with the no-lost-wake-up invariant evaluated after every op (free mutex + pending => woken through the latest waker); enumeration fixpoint for small k; polls racing with the guard drop of another thread (between two critical sections of one poll); thorough adds task programs run to quiescence.", "4/C03"),
 "C04": ("Every acquisition in fair mode is checked against the harness-side arrival order; random + exhaustive small configurations.", "4/C04"),
 "C05": ("Permit ledger oracle over borrowed/shared, fair/unfair semaphores, checked after every op; random + exhaustive (totals bounded).", "4/C05"),
 "C06": ("The statement's invariant (no unconsumed wake-up => head request does not fit) evaluated after every op; found and fixed two real defects (D1a, D1b); random + exhaustive; polls racing with a release() of another thread.", "4/C06"),
 "C07": ("Every completion with n>0 on a fair semaphore is checked against the arrival order; zero requests must complete at once.", "4/C07"),
 "C08": ("Per-value life line with drop-counting payloads checked after every op and at teardown over all buffer kinds, capacities 0..3, borrowed/shared.", "4/C08"),
 "C09": ("FIFO order of send effects, capacity bound and rendezvous (capacity 0) checked on every receive / accepted send.", "4/C09"),
 "C10": ("Wake-up invariants (A) receivers, (B) senders, (C) after close, evaluated after every op with harness-side availability that errs on the small side.", "4/C10"),
 "C11": ("Closedness model (explicit close, last sender / last receiver handle) with exact prediction of every report of 'closed', for mpmc, oneshot, oneshot-broadcast and state broadcast; found and fixed D3.", "4/C11"),
 "C12": ("Open|Sent|Closed model with exact prediction of every send/receive result and clone/drop ledger for oneshot and oneshot-broadcast, borrowed and shared; a second thread polling / dropping the woken future inside the window after the unlock, and polls racing with a send().", "4/C12"),
 "C13": ("Publication-log model with exact prediction of every receive/try_receive result, id monotonicity through the public Ord, no-stranding invariant; polls racing with a send() of another thread.", "4/C13"),
 "C14": ("Per-waiter latch model with exact prediction of every poll result; set wakes all through latest wakers, reset wakes nobody; polls racing with a set() of another thread.", "4/C14"),
 "C15": ("Sorted-multiset reference model with exact prediction of poll results, wake sets, wake order and next_expiration, clock over the whole u64 range.", "4/C15"),
 "C17": ("is_terminated compared with the harness flag after every op in every world; poll-after-completion probe must panic; stream protocol checked as a receiver.", "4/C17"),
 "C18": ("Counting global allocator armed only inside library calls in every history of every world (mpmc also with capacity 12 and nine buffered values).", "4/C18"),
}
m = {
 "version": 1,
 "setup_cmd": "./check --build",
 "hooks": {"guard": "futures_intrusive_verif", "enable": "RUSTFLAGS=--cfg futures_intrusive_verif (set in harness/.cargo/config.toml and fuzz/.cargo/config.toml)",
           "baseline_off_cmd": "cd /repo && cargo test --workspace --no-fail-fast --offline", "source_commits": hooks_commits, "add_only": True},
 "engines": [{"name": "fi_verif", "path": "harness", "serves_properties": sorted(CHECKS.keys()), "kind_free_text": "Rust crate: one history interpreter + property monitors per primitive (worlds); drivers: proptest random stateful generation with shrinking (R), bounded-exhaustive enumeration with joint-state pruning (E), generated task programs under a generated schedule (T, as worlds), enumerated type matrix (M), libFuzzer+ASan campaigns (F, thorough) and Miri on sampled histories (U, thorough); committed regress histories are replayed first"}],
 "checks": [],
 "notes": "see DESIGN.md; ./check <ID> --tier quick|thorough; known findings in known_findings.json",
 "not_applicable": [],
}
import os
extra = {}
if os.path.exists("/verif/tools/manifest_extra.json"):
    extra = json.load(open("/verif/tools/manifest_extra.json"))
for pid, (text, ref) in sorted({**CHECKS, **{k: tuple(v) for k, v in extra.get("checks", {}).items()}}.items()):
    m["checks"].append({
        "property_id": pid,
        "quick_cmd": "./check %s --tier quick" % pid,
        "thorough_cmd": "./check %s --tier thorough" % pid,
        "evidence_file": "/verif/evidence/%s.json" % pid,
        "replay_cmd_template": "./check %s --replay {path}" % pid,
        "engine": "fi_verif",
        "level_claimed": lvl(text, "DESIGN.md section " + ref),
        "level_note": NOTE,
        "technique": extra.get("technique", {}).get(pid, TECH_RE),
    })
claimed = {c["property_id"] for c in m["checks"]}
for l in open("/verif/properties.jsonl"):
    pid = json.loads(l)["id"]
    if pid not in claimed:
        m["not_applicable"].append({"property_id": pid, "reason": extra.get("na", {}).get(pid, "check under construction in this round; not claimed until its machinery is committed")})
m["engines"][0]["serves_properties"] = sorted(claimed)
json.dump(m, open("/verif/MANIFEST.json", "w"), indent=1)
print("claimed", sorted(claimed))
