#!/bin/bash
# tools/seed_eval.sh <ID> [check ids...]   - confirm a sub-agent's seeded change and run our checks against it.
# 1. in the scratch worktree /tmp/seed/<ID>: existing suite green with the change, demo fails with / passes without
# 2. apply seed_out/patch.diff to /repo, run the listed checks (default: <ID>) at the quick tier, undo
# 3. store patch, demo and meta.json under /verif/seeded/<ID>/
ID="$1"; shift; CHECKS="${*:-$ID}"
ROOT="${SEEDROOT:-/tmp/seed}"; SUFFIX="${SEEDSUFFIX:-}"
WT=$ROOT/$ID; OUT=/verif/seeded/$ID$SUFFIX
mkdir -p "$OUT"
[ "${SEED_PHASE:-all}" = B ] || [ -f "$WT/seed_out/patch.diff" ] || { echo "no patch in $WT/seed_out"; exit 2; }
if [ "${SEED_PHASE:-all}" = B ]; then
  SUITE=$(cat "$OUT/.suite" 2>/dev/null); DEMO_WITH=$(cat "$OUT/.demo_with" 2>/dev/null); DEMO_WITHOUT=$(cat "$OUT/.demo_without" 2>/dev/null)
else
cd "$WT" || exit 2
# the patch file is the source of truth: start from clean sources and apply it
git checkout -- src && git apply seed_out/patch.diff || { echo "patch does not apply to a clean worktree"; exit 2; }
cp seed_out/seed_demo.rs tests/seed_demo.rs 2>/dev/null
mv tests/seed_demo.rs $ROOT/$ID.demo.rs
SUITE=$(cargo test --offline --workspace --no-fail-fast 2>&1 | grep -E "^test result" | awk '{p+=$4; f+=$6} END {print p" passed "f" failed"}')
mv $ROOT/$ID.demo.rs tests/seed_demo.rs
DEMO_WITH=$(cargo test --offline --test seed_demo 2>&1 | grep -E "^test result" | head -1)
git apply -R seed_out/patch.diff
DEMO_WITHOUT=$(cargo test --offline --test seed_demo 2>&1 | grep -E "^test result" | head -1)
git apply seed_out/patch.diff
echo "suite with change: $SUITE"; echo "demo with change: $DEMO_WITH"; echo "demo without: $DEMO_WITHOUT"
cp seed_out/patch.diff "$OUT/patch.diff"; cp tests/seed_demo.rs "$OUT/seed_demo.rs"; cp seed_out/notes.md "$OUT/notes.md" 2>/dev/null
fi
if [ "${SEED_PHASE:-all}" = A ]; then
  echo "$SUITE" > "$OUT/.suite"; echo "$DEMO_WITH" > "$OUT/.demo_with"; echo "$DEMO_WITHOUT" > "$OUT/.demo_without"; exit 0
fi
# run our checks against it (REPO_DIR / VERIF_RUN_DIR allow an isolated copy while /repo is in use)
REPO_DIR="${REPO_DIR:-/repo}"; VERIF_RUN_DIR="${VERIF_RUN_DIR:-/verif}"
cd "$VERIF_RUN_DIR"
[ -z "$(git -C "$REPO_DIR" status --porcelain --untracked-files=no)" ] || { echo "/repo dirty"; exit 2; }
rm -rf /tmp/evidence_backup_$$ && cp -r "$VERIF_RUN_DIR/evidence" /tmp/evidence_backup_$$
git -C "$REPO_DIR" apply "$OUT/patch.diff" || { echo "patch does not apply to /repo"; exit 2; }
RES=""
for c in $CHECKS; do
  t0=$(date +%s)
  o=$(./check $c --tier quick 2>&1); rc=$?
  v=$(echo "$o" | grep -E "^violation:" | head -1 | cut -c1-300)
  h=$(echo "$o" | grep -E "^history:" | head -1 | cut -c1-300)
  RES="$RES$c: rc=$rc $(($(date +%s)-t0))s | $v | $h\n"
done
git -C "$REPO_DIR" checkout -- .
rm -rf "$VERIF_RUN_DIR/evidence" && mv /tmp/evidence_backup_$$ "$VERIF_RUN_DIR/evidence"
echo -e "$RES"
python3 - "$ID" "$SUITE" "$DEMO_WITH" "$DEMO_WITHOUT" "$RES" "$CHECKS" "$OUT" <<'PY'
import sys, json, os
id_, suite, dw, dwo, res, checks, out = sys.argv[1:8]
if not suite.strip() and os.path.isfile(out + "/meta.json"):
    # phase B without stored phase A results: keep the confirmation that is on file
    old = json.load(open(out + "/meta.json")).get("confirmed", {})
    suite, dw, dwo = old.get("existing_suite_with_change", ""), old.get("demo_with_change", ""), old.get("demo_without_change", "")
meta = {"property": id_, "origin": "independent sub-agent given only the property text and a scratch worktree",
        "needs_to_manifest": "see notes.md",
        "confirmed": {"existing_suite_with_change": suite, "demo_with_change": dw.strip(), "demo_without_change": dwo.strip()},
        "our_checks_quick_tier": [l for l in res.replace("\\n", "\n").split("\n") if l.strip()],
        "commands": ["cd /tmp/seed/%s && cargo test --offline --workspace --no-fail-fast (demo moved aside)" % id_,
                     "cargo test --offline --test seed_demo (with / without the src change)",
                     "git -C /repo apply seeded/%s/patch.diff; ./check <id> --tier quick; git -C /repo checkout -- ." % id_]}
json.dump(meta, open(out + "/meta.json", "w"), indent=1)
PY
