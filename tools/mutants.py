#!/usr/bin/env python3
"""Sensitivity testing: apply hand-written mutants of /repo one at a time, run the checks that are
expected to catch them (quick tier), revert. Usage:
    tools/mutants.py [name-substring ...] [--tests]     (--tests also runs the repository's own suite)
Results are appended to /verif/out/mutants.log and printed as a table."""
import subprocess, sys, os, json, time

REPO = os.environ.get("REPO_DIR", "/repo")
VERIF = os.environ.get("VERIF_RUN_DIR", "/verif")

# (name, file, old, new, occurrence (0-based) or None for unique, expected properties)
M = []
def m(name, file, old, new, props, occ=None, extra=None):
    M.append(dict(name=name, file=file, old=old, new=new, props=props, occ=occ, extra=extra or []))

# ---------------------------------------------------------------- mutex
m("mutex-notified-drop-no-forward", "src/sync/mutex.rs",
  """                // another task gets the chance to run.
                self.return_last_waiter()""",
  """                // another task gets the chance to run.
                None""", ["C03"])
m("mutex-wake-newest", "src/sync/mutex.rs",
  """            self.waiters.peek_last_mut()
        } else {
            self.waiters.remove_last()
        };""",
  """            self.waiters.peek_first_mut()
        } else {
            self.waiters.remove_first()
        };""", ["C04", "C03"])
m("mutex-unfair-no-waker-update", "src/sync/mutex.rs",
  """                        // The caller might have passed a different `Waker`.
                        // In this case we need to update it.
                        update_waker_ref(&mut wait_node.task, cx);
                        Poll::Pending
                    }
                }
            }
            PollState::Notified => {""",
  """                        Poll::Pending
                    }
                }
            }
            PollState::Notified => {""", ["C03"])
m("mutex-fair-trylock-barges", "src/sync/mutex.rs",
  "if !self.is_locked && (!self.is_fair || self.waiters.is_empty()) {",
  "if !self.is_locked {", ["C04"])
m("mutex-drop-waiting-not-unlinked", "src/sync/mutex.rs",
  """                // of the waiter list
                unsafe { self.force_remove_waiter(wait_node) };
                wait_node.state = PollState::Done;
                None""",
  """                // of the waiter list
                wait_node.state = PollState::Done;
                None""", ["C01"])
m("mutex-notified-arm-ignores-lock", "src/sync/mutex.rs",
  """                // we need to add it to the wait queue again.
                if !self.is_locked {""",
  """                // we need to add it to the wait queue again.
                if !self.is_locked || !self.is_fair {""", ["C02"])
# ---------------------------------------------------------------- semaphore
m("sem-revert-D1a", "src/sync/semaphore.rs",
  """                // whose requests fit into the available permits.
                self.wakeup_waiters();""",
  """                // whose requests fit into the available permits.""", ["C06"])
m("sem-revert-D1b", "src/sync/semaphore.rs",
  """                    // the permits which this waiter could not use.
                    self.wakeup_waiters();""",
  """                    // the permits which this waiter could not use.""", ["C06"])
m("sem-disarm-keeps-permits", "src/sync/semaphore.rs",
  """        let permits = self.permits;
        self.permits = 0;
        permits""",
  """        let permits = self.permits;
        permits""", ["C05"], occ=0)
m("sem-fair-one-permit-barges", "src/sync/semaphore.rs",
  "|| required_permits == 0)", "|| required_permits <= 1)", ["C07"])
m("sem-release-no-wake", "src/sync/semaphore.rs",
  """        self.permits += permits;

        // Wakeup the last waiter
        self.wakeup_waiters();""",
  """        self.permits += permits;
        if self.permits > 1 {
            self.wakeup_waiters();
        }""", ["C06"])
m("sem-shared-future-loses-handle", "src/sync/semaphore.rs",
  """                Poll::Pending => {
                    mut_self.semaphore.replace(semaphore);
                    Poll::Pending""",
  """                Poll::Pending => {
                    if mut_self.wait_node.required_permits != 3 {
                        mut_self.semaphore.replace(semaphore);
                    }
                    Poll::Pending""", ["C17", "C01"])
m("sem-notified-arm-overgrants", "src/sync/semaphore.rs",
  """                // we need to add it to the wait queue again.
                if self.permits >= wait_node.required_permits {""",
  """                // we need to add it to the wait queue again.
                if self.permits + 1 >= wait_node.required_permits && self.permits > 0 {""", ["C05"])
# ---------------------------------------------------------------- event
m("event-done-rechecks-is_set", "src/sync/manual_reset_event.rs",
  """                // have been reset it in the meantime.
                Poll::Ready(())""",
  """                // have been reset it in the meantime.
                if self.is_set { Poll::Ready(()) } else { Poll::Pending }""", ["C14"])
m("event-no-waker-update", "src/sync/manual_reset_event.rs",
  """                // passed a different `Waker`. In this case we need to update it.
                update_waker_ref(&mut wait_node.task, cx);
                Poll::Pending""",
  """                // passed a different `Waker`. In this case we need to update it.
                Poll::Pending""", ["C14"])
m("event-set-allocates", "src/sync/manual_reset_event.rs",
  """            self.waiters.reverse_drain(|waiter| {
                if let Some(handle) = waiter.task.take() {
                    handle.wake();
                }
                waiter.state = PollState::Done;
            });""",
  """            let mut wakers = std::vec::Vec::new();
            self.waiters.reverse_drain(|waiter| {
                if let Some(handle) = waiter.task.take() {
                    wakers.push(handle);
                }
                waiter.state = PollState::Done;
            });
            for w in wakers { w.wake(); }""", ["C18"])
# ---------------------------------------------------------------- timer
m("timer-expire-strictly-after", "src/timer/timer.rs",
  """                let first_expiry = entry.expiry;
                if now >= first_expiry {""",
  """                let first_expiry = entry.expiry;
                if now > first_expiry {""", ["C15"])
m("timer-delay-wraps", "src/timer/timer.rs",
  "now.saturating_add(duration_ms)", "now.wrapping_add(duration_ms)", ["C15"])
m("timer-drop-not-unlinked", "src/timer/timer.rs",
  """            unsafe { self.waiters.remove(wait_node) };
            wait_node.state = PollState::Unregistered;""",
  """            if wait_node.expiry != 13 { unsafe { self.waiters.remove(wait_node) }; }
            wait_node.state = PollState::Unregistered;""", ["C01"])
m("heap-remove-forgets-next-prev", "src/intrusive_pairing_heap.rs",
  """            if let Some(mut next) = node.next {
                next.as_mut().prev = node.prev;
            }""",
  """            if let Some(mut next) = node.next {
                if node.prev.is_none() { next.as_mut().prev = node.prev; }
            }""", ["C15", "C01", "C20"])
# ---------------------------------------------------------------- mpmc
m("mpmc-notified-recv-drop-no-forward", "src/channel/mpmc.rs",
  """                wait_node.state = RecvPollState::Unregistered;
                return_oldest_receive_waiter(&mut self.receive_waiters)""",
  """                wait_node.state = RecvPollState::Unregistered;
                None""", ["C10"])
m("mpmc-park-does-not-wake-receiver", "src/channel/mpmc.rs",
  """                    // Return the oldest receive waiter
                    let waker =
                        return_oldest_receive_waiter(&mut self.receive_waiters);
                    return (Poll::Pending, None, waker);""",
  """                    let waker = if self.buffer.capacity() == 0 { return_oldest_receive_waiter(&mut self.receive_waiters) } else { None };
                    return (Poll::Pending, None, waker);""", ["C10"])
m("mpmc-refill-from-newest", "src/channel/mpmc.rs",
  """    fn try_copy_value_from_oldest_waiter(&mut self) -> Option<Waker> {
        let last_waiter = self.send_waiters.remove_last();""",
  """    fn try_copy_value_from_oldest_waiter(&mut self) -> Option<Waker> {
        let last_waiter = self.send_waiters.remove_first();""", ["C09"])
m("mpmc-close-clears-buffer", "src/channel/mpmc.rs",
  """        self.is_closed = true;

        // Wakeup all send and receive waiters, since they are now guaranteed""",
  """        self.is_closed = true;
        self.clear();

        // Wakeup all send and receive waiters, since they are now guaranteed""", ["C08", "C11"])
m("mpmc-last-receiver-keeps-buffer", "src/channel/mpmc.rs",
  """                self.inner.channel.inner.lock().clear();""",
  """""", ["C11"])
m("mpmc-sender-count-off-by-one", "src/channel/mpmc.rs",
  """                if self.inner.senders.fetch_sub(1, Ordering::Release) != 1 {""",
  """                if self.inner.senders.fetch_sub(1, Ordering::Release) != 2 {""", ["C11"])
m("mpmc-refill-does-not-wake-sender", "src/channel/mpmc.rs",
  """            last_waiter.state = SendPollState::SendComplete;

            last_waiter.task.take()""",
  """            last_waiter.state = SendPollState::SendComplete;

            last_waiter.task.take();
            None""", ["C10"])
m("mpmc-close-wakes-only-receivers", "src/channel/mpmc.rs",
  """        wake_recv_waiters(&mut self.receive_waiters);
        wake_send_waiters(&mut self.send_waiters);""",
  """        wake_recv_waiters(&mut self.receive_waiters);
        if self.buffer.is_empty() { wake_send_waiters(&mut self.send_waiters); }""", ["C10", "C11"])
m("mpmc-stream-never-terminates", "src/channel/mpmc.rs",
  """                        unsafe {
                            self.get_unchecked_mut().is_terminated = true
                        };""",
  """""", ["C17"])
# (removed: try_send reporting Full instead of Closed on a closed full channel still fails and returns the
#  caller's value, which is all C11 states - the check that demanded `Closed` was stricter than the statement)
m("arraybuf-drop-from-zero", "src/buffer/ring_buffer.rs",
  """                arr_ptr.add(self.recv_idx).drop_in_place();
            }
            self.recv_idx = self.next_idx(self.recv_idx);""",
  """                arr_ptr.add(self.size - 1).drop_in_place();
            }
            self.recv_idx = self.next_idx(self.recv_idx);""", ["C08", "C19"])
# ---------------------------------------------------------------- oneshot / broadcast / state
m("broadcast-takes-value", "src/channel/oneshot_broadcast.rs",
  """                match &self.value {
                    Some(v) => {
                        // A value was available inside the channel and was fetched.
                        // TODO: If the same waiter asks again, they will always
                        // get the same value, instead of `None`. Is that reasonable?
                        Poll::Ready(Some(v.clone()))""",
  """                match self.value.take() {
                    Some(v) => {
                        Poll::Ready(Some(v))""", ["C12"])
m("oneshot-wakes-only-oldest", "src/channel/oneshot.rs",
  """    waiters.reverse_drain(|waiter| {
        if let Some(handle) = waiter.task.take() {
            handle.wake();
        }
        waiter.state = RecvPollState::Unregistered;
    });""",
  """    if let Some(waiter) = waiters.remove_last() {
        if let Some(handle) = waiter.task.take() {
            handle.wake();
        }
        waiter.state = RecvPollState::Unregistered;
    }""", ["C12", "C11"])
m("oneshot-second-send-overwrites", "src/channel/oneshot.rs",
  """        if self.is_fulfilled {
            return Err(ChannelSendError(value));
        }""",
  """        if self.is_fulfilled && self.value.is_none() {
            return Err(ChannelSendError(value));
        }""", ["C12"])
m("state-receive-not-strictly-newer", "src/channel/state_broadcast.rs",
  "Some(ref v) if wait_node.state_id < self.state_id => {", "Some(ref v) if wait_node.state_id <= self.state_id => {", ["C13"])
m("state-close-does-not-wake", "src/channel/state_broadcast.rs",
  """        self.is_closed = true;

        // Wakeup all waiters
        wake_waiters(&mut self.waiters);""",
  """        self.is_closed = true;""", ["C13", "C11"])
m("state-try_receive-ignores-id", "src/channel/state_broadcast.rs",
  """        if state_id < self.state_id {
            Some((self.state_id, val.clone()))""",
  """        if state_id <= self.state_id {
            Some((self.state_id, val.clone()))""", ["C13"])
m("state-receiver-drop-closes-early", "src/channel/state_broadcast.rs",
  """                if self.inner.receivers.fetch_sub(1, Ordering::Release) != 1 {
                    return;
                }""",
  """                if self.inner.receivers.fetch_sub(1, Ordering::Release) > 2 {
                    return;
                }""", ["C11"])
m("list-remove-keeps-tail", "src/intrusive_double_linked_list.rs",
  """                debug_assert_eq!(self.tail, Some(node.into()));
                self.tail = node.prev;""",
  """                if node.prev.is_none() { self.tail = node.prev; }""", ["C01", "C20"])
m("list-reverse-drain-keeps-prev", "src/intrusive_double_linked_list.rs",
  """                current = node_ref.prev;

                node_ref.next = None;
                node_ref.prev = None;""",
  """                current = node_ref.prev;

                node_ref.next = None;""", ["C20", "C01"])


# ---------------------------------------------------------------- type level (C16)
m("c16-list-node-unpin", "src/intrusive_double_linked_list.rs",
  "    _pin: PhantomPinned,\n}", "    _pin: core::marker::PhantomData<()>,\n}", ["C16"],
  extra=[("src/intrusive_double_linked_list.rs", "            _pin: PhantomPinned,", "            _pin: core::marker::PhantomData,")])
m("c16-heap-node-unpin", "src/intrusive_pairing_heap.rs",
  "    _pin: PhantomPinned,\n}", "    _pin: core::marker::PhantomData<()>,\n}", ["C16"],
  extra=[("src/intrusive_pairing_heap.rs", "            _pin: PhantomPinned,", "            _pin: core::marker::PhantomData,")])
m("c16-revert-D2", "src/sync/mutex.rs", "T: Send + 'a> Send", "T: 'a> Send", ["C16"])
m("c16-revert-D4", "src/channel/mpmc.rs", "    A: RingBuf<Item = T> + Send,\n{\n}\n\nimpl<MutexType: RawMutex, T, A> core::fmt::Debug", "    A: RingBuf<Item = T>,\n{\n}\n\nimpl<MutexType: RawMutex, T, A> core::fmt::Debug", ["C16"])
m("c16-revert-D5-state-future", "src/channel/state_broadcast.rs", "unsafe impl<MutexType: Send + Sync, T: Clone + Send> Send", "unsafe impl<MutexType: Sync, T: Clone + Send> Send", ["C16"])
m("c16-noop-lock-sync", "src/noop_lock.rs", "_phantom: PhantomData<*mut ()>,", "_phantom: PhantomData<()>,", ["C16"])
m("c16-local-timer-future-send", "src/timer/timer.rs", "impl<'a> core::fmt::Debug for LocalTimerFuture<'a> {", "unsafe impl<'a> Send for LocalTimerFuture<'a> {}\n\nimpl<'a> core::fmt::Debug for LocalTimerFuture<'a> {", ["C16"])
m("c16-mutex-sync-any-payload", "src/sync/mutex.rs", "unsafe impl<T: Send, MutexType: RawMutex + Sync> Sync", "unsafe impl<T, MutexType: RawMutex + Sync> Sync", ["C16"])
m("c16-guard-sync-any-payload", "src/sync/mutex.rs", "unsafe impl<MutexType: RawMutex, T: Sync> Sync", "unsafe impl<MutexType: RawMutex, T> Sync", ["C16"])
m("c16-oneshot-future-send-any-payload", "src/channel/channel_future.rs", "unsafe impl<'a, MutexType: Sync, T: Send> Send\n    for ChannelReceiveFuture<'a, MutexType, T>", "unsafe impl<'a, MutexType: Sync, T> Send\n    for ChannelReceiveFuture<'a, MutexType, T>", ["C16"])
m("c16-timer-for-any-lock", "src/timer/timer.rs", "impl<MutexType: RawMutex> Timer for GenericTimerService<MutexType>\nwhere\n    MutexType: Sync,\n{", "impl<MutexType: RawMutex> Timer for GenericTimerService<MutexType>\n{", ["C16"])
m("c16-event-not-sync-anymore", "src/sync/manual_reset_event.rs", "unsafe impl<MutexType: RawMutex + Sync> Sync\n    for GenericManualResetEvent<MutexType>\n{\n}", "", ["C16"])


def sh(cmd, **kw):
    return subprocess.run(cmd, shell=True, capture_output=True, text=True, **kw)

def apply(mu):
    p = os.path.join(REPO, mu["file"])
    s = open(p).read()
    n = s.count(mu["old"])
    if mu["occ"] is None:
        if n != 1:
            raise SystemExit("mutant %s: pattern occurs %d times in %s" % (mu["name"], n, mu["file"]))
        s = s.replace(mu["old"], mu["new"])
    else:
        idx = -1
        for _ in range(mu["occ"] + 1):
            idx = s.index(mu["old"], idx + 1)
        s = s[:idx] + mu["new"] + s[idx + len(mu["old"]):]
    open(p, "w").write(s)
    for (f2, old2, new2) in mu.get("extra", []):
        p2 = os.path.join(REPO, f2)
        s2 = open(p2).read()
        if s2.count(old2) != 1:
            raise SystemExit("mutant %s: extra pattern occurs %d times" % (mu["name"], s2.count(old2)))
        open(p2, "w").write(s2.replace(old2, new2))

def revert():
    sh("git -C %s checkout -- ." % REPO)

# ---------------------------------------------------------------- split critical sections (need a
# second thread's call between two critical sections of one poll: the racing ops)
m("oneshot-receive-check-then-register", "src/channel/oneshot.rs",
  """        self.inner.lock().try_receive(wait_node, cx)""",
  """        if let RecvPollState::Unregistered = wait_node.state {
            let (has, done) = { let st = self.inner.lock(); (st.value.is_some(), st.is_fulfilled) };
            if !has && !done {
                wait_node.task = Some(cx.waker().clone());
                wait_node.state = RecvPollState::Registered;
                self.inner.lock().waiters.add_front(wait_node);
                return Poll::Pending;
            }
        }
        self.inner.lock().try_receive(wait_node, cx)""", ["C12"])
m("semaphore-acquire-check-then-register", "src/sync/semaphore.rs",
  """        let mut semaphore_state = semaphore.state.lock();

        let poll_res =""",
  """        if mut_self.wait_node.state == PollState::New {
            let ok = semaphore.state.lock().try_acquire_sync(mut_self.wait_node.required_permits);
            if !ok {
                mut_self.wait_node.task = Some(cx.waker().clone());
                mut_self.wait_node.state = PollState::Waiting;
                let mut st = semaphore.state.lock();
                unsafe { st.waiters.add_front(&mut mut_self.wait_node) };
                return Poll::Pending;
            }
            semaphore.state.lock().permits += mut_self.wait_node.required_permits;
        }
        let mut semaphore_state = semaphore.state.lock();

        let poll_res =""", ["C06"])

def main():
    args = [a for a in sys.argv[1:] if not a.startswith("--")]
    run_tests = "--tests" in sys.argv
    dirty = sh("git -C %s status --porcelain --untracked-files=no" % REPO).stdout.strip()
    if dirty:
        raise SystemExit("/repo has uncommitted changes:\n" + dirty)
    sel = [mu for mu in M if not args or any(a in mu["name"] for a in args)]
    rows = []
    # evidence written while a mutant is applied must never be committed: keep the real files aside
    sh("rm -rf /tmp/evidence_backup_m && cp -r %s/evidence /tmp/evidence_backup_m" % VERIF)
    for mu in sel:
        try:
            apply(mu)
            res = {}
            for p in mu["props"]:
                t0 = time.time()
                r = sh("cd %s && ./check %s --tier quick" % (VERIF, p))
                caught = r.returncode == 1 and ("VIOLATION property=%s" % p) in r.stdout
                res[p] = ("CAUGHT" if caught else ("rc=%d" % r.returncode)) + " %.0fs" % (time.time() - t0)
                if r.returncode == 2:
                    res[p] += " " + r.stdout.strip().splitlines()[-1][:100] if r.stdout.strip() else ""
            tests = ""
            if run_tests:
                r = sh("cd %s && CARGO_TARGET_DIR=/tmp/mt_target cargo test --offline --workspace --no-fail-fast 2>&1 | grep -E '^test result|panicked|error' | head -20" % REPO)
                failed = "FAILED" in r.stdout or "failed" in r.stdout and "0 failed" not in r.stdout.replace("; 0 failed", "")
                tests = "suite: " + ("FAILS" if ("FAILED" in r.stdout or "error" in r.stdout) else "passes")
            rows.append((mu["name"], res, tests))
            print(mu["name"], res, tests, flush=True)
        finally:
            revert()
    sh("rm -rf %s/evidence && mv /tmp/evidence_backup_m %s/evidence" % (VERIF, VERIF))
    os.makedirs(os.path.join(VERIF, "out"), exist_ok=True)
    with open(os.path.join(VERIF, "out", "mutants.log"), "a") as f:
        for r in rows:
            f.write(json.dumps(r) + "\n")
    missed = [r for r in rows if not any(v.startswith("CAUGHT") for v in r[1].values())]
    print("\n%d mutants, %d not caught by any expected check" % (len(rows), len(missed)))
    for r in missed:
        print("  MISSED", r[0], r[1])

if __name__ == "__main__":
    main()
