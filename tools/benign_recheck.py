#!/usr/bin/env python3
"""tools/benign_recheck.py [names...] [--suite]  - false-alarm regression over /verif/benign/<name>/.

Each directory holds a change that alters behaviour but keeps all 20 properties true. The patch is
applied to $REPO_DIR (default /repo), every check listed in meta.json is run at the quick tier
from $VERIF_RUN_DIR (default /verif) and must exit 0; the patch is undone afterwards and the
evidence directory restored. With --suite the crate's own test suite is run with the change first.
Exit 1 if any check raises an alarm.
"""
import json, os, subprocess, sys, shutil, time

VERIF = "/verif"
REPO = os.environ.get("REPO_DIR", "/repo")
RUN = os.environ.get("VERIF_RUN_DIR", VERIF)


def sh(cmd, cwd=None):
    return subprocess.run(cmd, shell=True, cwd=cwd, stdout=subprocess.PIPE, stderr=subprocess.STDOUT, text=True)


def main():
    args = [a for a in sys.argv[1:] if not a.startswith("--")]
    suite = "--suite" in sys.argv
    names = args or sorted(os.listdir(f"{VERIF}/benign"))
    if sh("git status --porcelain --untracked-files=no", REPO).stdout.strip():
        print(f"{REPO} is dirty"); sys.exit(2)
    backup = f"/tmp/evidence_backup_{os.getpid()}"
    shutil.rmtree(backup, ignore_errors=True)
    shutil.copytree(f"{RUN}/evidence", backup)
    alarms = []
    try:
        for name in names:
            d = f"{VERIF}/benign/{name}"
            meta = json.load(open(f"{d}/meta.json"))
            if sh(f"git apply {d}/patch.diff", REPO).returncode != 0:
                print(f"{name}: patch does not apply"); alarms.append(name); continue
            try:
                if suite:
                    r = sh("cargo test --offline --workspace --no-fail-fast 2>&1 | grep -E '^test result' | awk '{p+=$4; f+=$6} END {print p\" passed \"f\" failed\"}'", REPO)
                    meta["suite_with_change"] = r.stdout.strip()
                    print(f"{name}: suite {r.stdout.strip()}", flush=True)
                res = []
                for c in meta["checks"]:
                    t0 = time.time()
                    r = sh(f"./check {c} --tier quick", RUN)
                    last = [l for l in r.stdout.splitlines() if l.startswith(("OK", "VIOLATION", "violation:", "INCONCLUSIVE"))]
                    line = f"{name} {c} rc={r.returncode} {int(time.time()-t0)}s {' | '.join(last)[:300]}"
                    res.append(line)
                    print(line, flush=True)
                    if r.returncode != 0:
                        alarms.append(f"{name}/{c}")
                meta["results_quick_tier"] = res
            finally:
                sh("git checkout -- .", REPO)
            json.dump(meta, open(f"{d}/meta.json", "w"), indent=1)
    finally:
        shutil.rmtree(f"{RUN}/evidence", ignore_errors=True)
        shutil.move(backup, f"{RUN}/evidence")
    print(f"benign changes: {len(names)} alarms: {alarms}")
    sys.exit(1 if alarms else 0)


if __name__ == "__main__":
    main()
